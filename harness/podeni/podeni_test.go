// Package podeni: correspondence harness for the per-pod ENI controllers (pkg/controller/pod and
// pkg/controller/pod-eni): scripted pod lifecycles drive the real ReconcilePod, ReconcilePodENI, the record
// collector and the leaked-interface collector against controller-runtime's fake API server and a
// simulated cloud under a virtual clock. Properties C10 C11.
package podeni

import (
	"context"
	"fmt"
	"math/big"
	"os"
	"sort"
	"sync"
	"testing"
	"testing/synctest"
	"time"

	"github.com/aliyun/alibaba-cloud-sdk-go/services/ecs"
	"github.com/aliyun/alibaba-cloud-sdk-go/services/vpc"
	corev1 "k8s.io/api/core/v1"
	k8sErr "k8s.io/apimachinery/pkg/api/errors"
	metav1 "k8s.io/apimachinery/pkg/apis/meta/v1"
	"k8s.io/apimachinery/pkg/runtime"
	"k8s.io/apimachinery/pkg/runtime/schema"
	k8stypes "k8s.io/apimachinery/pkg/types"
	"k8s.io/apimachinery/pkg/util/wait"
	clientgoscheme "k8s.io/client-go/kubernetes/scheme"
	"k8s.io/utils/ptr"
	"sigs.k8s.io/controller-runtime/pkg/client"
	"sigs.k8s.io/controller-runtime/pkg/client/fake"
	"sigs.k8s.io/controller-runtime/pkg/client/interceptor"
	"sigs.k8s.io/controller-runtime/pkg/reconcile"

	"verifharness/hx"

	aliyunClient "github.com/AliyunContainerService/terway/pkg/aliyun/client"
	apiErr "github.com/AliyunContainerService/terway/pkg/aliyun/client/errors"
	networkv1beta1 "github.com/AliyunContainerService/terway/pkg/apis/network.alibabacloud.com/v1beta1"
	register "github.com/AliyunContainerService/terway/pkg/controller"
	podctl "github.com/AliyunContainerService/terway/pkg/controller/pod"
	podeni "github.com/AliyunContainerService/terway/pkg/controller/pod-eni"
	"github.com/AliyunContainerService/terway/pkg/vswitch"
	"github.com/AliyunContainerService/terway/types"
	"github.com/AliyunContainerService/terway/types/controlplane"
)

var scheme = func() *runtime.Scheme {
	s := runtime.NewScheme()
	_ = clientgoscheme.AddToScheme(s)
	_ = networkv1beta1.AddToScheme(s)
	return s
}()

const clusterID = "c-this"

// ---- simulated cloud ---------------------------------------------------------------------------------

type cEni struct {
	id       int
	inUse    bool
	member   bool
	instance string
	trunk    string
	tags     int // bit 0: cluster tag with this cluster's id, bit 1: creator tag terway-controller, 4: cluster tag of another cluster + creator
	born     time.Time
	ip       int
}

const (
	cCreate = 1
	cAttach = 2
	cDetach = 7
	cDelete = 8
)

type fakeCloud struct {
	register.Interface
	mu     sync.Mutex
	enis   map[int]*cEni
	next   int
	calls  [][]int       // kind eni ok (0 no effect, 1 effect + success, 2 effect but failure reported)
	faults map[int][]int // call kind -> outcomes for the next calls: 0 ok, 1 error before effect, 2 error after effect
	hold   chan struct{} // when set, the next attach parks here
	parked bool
}

func eniID(n int) string { return fmt.Sprintf("eni-%d", n) }
func eniNum(s string) int {
	var n int
	fmt.Sscanf(s, "eni-%d", &n)
	return n
}

func (c *fakeCloud) outcome(kind int) int {
	q := c.faults[kind]
	if len(q) == 0 {
		return 0
	}
	c.faults[kind] = q[1:]
	return q[0]
}

func okOf(out int) int {
	if out == 2 {
		return 2
	}
	return 1
}

func (c *fakeCloud) toAPI(e *cEni) *aliyunClient.NetworkInterface {
	ni := &aliyunClient.NetworkInterface{Status: "Available", NetworkInterfaceID: eniID(e.id), MacAddress: fmt.Sprintf("02:00:00:00:00:%02x", e.id%256),
		VSwitchID: "vsw-1", ZoneID: "zone-a", Type: aliyunClient.ENITypeSecondary, PrivateIPAddress: fmt.Sprintf("10.0.0.%d", e.ip),
		SecurityGroupIDs: []string{"sg-1"}, CreationTime: e.born.UTC().Format("2006-01-02T15:04:05Z")}
	if e.inUse {
		ni.Status = "InUse"
		ni.InstanceID = e.instance
		ni.TrunkNetworkInterfaceID = e.trunk
	}
	if e.member {
		ni.Type = aliyunClient.ENITypeMember
	}
	if e.tags&1 != 0 {
		ni.Tags = append(ni.Tags, ecs.Tag{TagKey: types.TagKeyClusterID, TagValue: clusterID})
	}
	if e.tags&4 != 0 {
		ni.Tags = append(ni.Tags, ecs.Tag{TagKey: types.TagKeyClusterID, TagValue: "c-other"})
	}
	if e.tags&2 != 0 {
		ni.Tags = append(ni.Tags, ecs.Tag{TagKey: types.NetworkInterfaceTagCreatorKey, TagValue: types.TagTerwayController})
	}
	if e.tags&8 != 0 {
		ni.Tags = append(ni.Tags, ecs.Tag{TagKey: "team", TagValue: "other"})
	}
	return ni
}

func (c *fakeCloud) DescribeVSwitchByID(ctx context.Context, id string) (*vpc.VSwitch, error) {
	return &vpc.VSwitch{VSwitchId: id, ZoneId: "zone-a", AvailableIpAddressCount: 1000, CidrBlock: "10.0.0.0/8", Ipv6CidrBlock: "fd00::/64"}, nil
}

func (c *fakeCloud) DescribeInstanceTypes(ctx context.Context, t []string) ([]ecs.InstanceType, error) {
	return nil, fmt.Errorf("instance types are not simulated")
}

func (c *fakeCloud) CreateNetworkInterface(ctx context.Context, opts ...aliyunClient.CreateNetworkInterfaceOption) (*aliyunClient.NetworkInterface, error) {
	o := &aliyunClient.CreateNetworkInterfaceOptions{}
	for _, x := range opts {
		x.ApplyCreateNetworkInterface(o)
	}
	c.mu.Lock()
	defer c.mu.Unlock()
	out := c.outcome(cCreate)
	if out != 0 {
		// a create that reports failure has created nothing (idempotent retry of the client wrapper)
		c.calls = append(c.calls, []int{cCreate, 0, 0})
		return nil, fmt.Errorf("injected: create failed")
	}
	c.next++
	e := &cEni{id: c.next, born: time.Now(), ip: c.next}
	if o.NetworkInterfaceOptions != nil {
		if o.NetworkInterfaceOptions.Tags[types.TagKeyClusterID] == clusterID {
			e.tags |= 1
		}
		if o.NetworkInterfaceOptions.Tags[types.NetworkInterfaceTagCreatorKey] == types.TagTerwayController {
			e.tags |= 2
		}
	}
	c.enis[e.id] = e
	c.calls = append(c.calls, []int{cCreate, e.id, 1})
	return c.toAPI(e), nil
}

func (c *fakeCloud) AttachNetworkInterface(ctx context.Context, opts ...aliyunClient.AttachNetworkInterfaceOption) error {
	o := &aliyunClient.AttachNetworkInterfaceOptions{}
	for _, x := range opts {
		x.ApplyTo(o)
	}
	c.mu.Lock()
	if c.hold != nil && !c.parked {
		h := c.hold
		c.parked = true
		c.mu.Unlock()
		<-h
		c.mu.Lock()
	}
	defer c.mu.Unlock()
	id := eniNum(*o.NetworkInterfaceID)
	e := c.enis[id]
	out := c.outcome(cAttach)
	if e == nil || out == 1 {
		c.calls = append(c.calls, []int{cAttach, id, 0})
		return fmt.Errorf("injected: attach failed")
	}
	e.inUse = true
	e.instance = *o.InstanceID
	if o.TrunkNetworkInstanceID != nil && *o.TrunkNetworkInstanceID != "" {
		e.member = true
		e.trunk = *o.TrunkNetworkInstanceID
	}
	c.calls = append(c.calls, []int{cAttach, id, okOf(out)})
	if out == 2 {
		return fmt.Errorf("injected: attach timed out after it took effect")
	}
	return nil
}

func (c *fakeCloud) DetachNetworkInterface(ctx context.Context, eni, instanceID, trunkENIID string) error {
	c.mu.Lock()
	defer c.mu.Unlock()
	id := eniNum(eni)
	e := c.enis[id]
	out := c.outcome(cDetach)
	if out == 1 {
		c.calls = append(c.calls, []int{cDetach, id, 0})
		return fmt.Errorf("injected: detach failed")
	}
	if e != nil {
		e.inUse = false
		e.member = false
		e.instance, e.trunk = "", ""
	}
	c.calls = append(c.calls, []int{cDetach, id, okOf(out)})
	if out == 2 {
		return fmt.Errorf("injected: detach timed out after it took effect")
	}
	return nil
}

func (c *fakeCloud) DeleteNetworkInterface(ctx context.Context, eni string) error {
	c.mu.Lock()
	defer c.mu.Unlock()
	id := eniNum(eni)
	out := c.outcome(cDelete)
	if out == 1 {
		c.calls = append(c.calls, []int{cDelete, id, 0})
		return fmt.Errorf("injected: delete failed")
	}
	if e := c.enis[id]; e != nil && e.inUse {
		c.calls = append(c.calls, []int{cDelete, id, 0})
		return fmt.Errorf("interface %s is attached", eni)
	}
	delete(c.enis, id)
	c.calls = append(c.calls, []int{cDelete, id, okOf(out)})
	if out == 2 {
		return fmt.Errorf("injected: delete timed out after it took effect")
	}
	return nil
}

func (c *fakeCloud) WaitForNetworkInterface(ctx context.Context, eni string, status string, backoff wait.Backoff, ignoreNotExist bool) (*aliyunClient.NetworkInterface, error) {
	c.mu.Lock()
	defer c.mu.Unlock()
	e := c.enis[eniNum(eni)]
	if e == nil {
		if ignoreNotExist {
			return nil, apiErr.ErrNotFound
		}
		return nil, fmt.Errorf("interface %s not found", eni)
	}
	ni := c.toAPI(e)
	if ni.Status != status {
		return nil, fmt.Errorf("interface %s is %s, want %s", eni, ni.Status, status)
	}
	return ni, nil
}

func (c *fakeCloud) DescribeNetworkInterface(ctx context.Context, vpcID string, eniIDs []string, instanceID string, instanceType string, status string, tags map[string]string) ([]*aliyunClient.NetworkInterface, error) {
	c.mu.Lock()
	defer c.mu.Unlock()
	var ids []int
	for id := range c.enis {
		ids = append(ids, id)
	}
	sort.Ints(ids)
	var out []*aliyunClient.NetworkInterface
	for _, id := range ids {
		ni := c.toAPI(c.enis[id])
		if len(eniIDs) > 0 {
			found := false
			for _, w := range eniIDs {
				if w == ni.NetworkInterfaceID {
					found = true
				}
			}
			if !found {
				continue
			}
		}
		if instanceType != "" && ni.Type != instanceType {
			continue
		}
		if status != "" && ni.Status != status {
			continue
		}
		out = append(out, ni)
	}
	return out, nil
}

// ---- one scripted history ------------------------------------------------------------------------------
// input: 10 trunk dual nrec (len rec..)*
// records: 1 addpod name uid node kind ttlSecs owned | 2 exitpod name | 3 delpod name | 4 reconcile-pod name nf (kind outcome)* |
//          5 reconcile-podeni name nf (kind outcome)* | 6 gc-records | 7 gc-interfaces | 8 advance secs |
//          9 foreign-interface tags ageSecs status | 10 api-fault what | 11 hold-next-attach | 12 release-attach |
//          13 terminate name (deletion timestamp set, still running; a later delpod ends it)
// kind of a pod: 0 elastic, 1 fixed TTL, 2 fixed Never, 3 two interfaces Never + TTL, 4 two interfaces TTL + Never, 5 not using per-pod interfaces,
//                6 two interfaces Elastic + fixed TTL, 7 two interfaces fixed Never + Elastic
// output per step (4 5 6 7 12): 88 step name err now(s) npods (name uid node exited kind)* nrec (name phase uid node deleting finalizer
//          nalloc (eni ip fixed strategy ttl)* lastSeenAge)* ncalls (len call..)* npre (eni inuse member tags age)* ncloud (..)*   (pre = the cloud when the step began)

func b2i(b bool) int {
	if b {
		return 1
	}
	return 0
}

func phaseNum(p networkv1beta1.Phase) int {
	switch p {
	case networkv1beta1.ENIPhaseBind:
		return 1
	case networkv1beta1.ENIPhaseDetaching:
		return 2
	case networkv1beta1.ENIPhaseUnbind:
		return 3
	case networkv1beta1.ENIPhaseBinding:
		return 4
	case networkv1beta1.ENIPhaseDeleting:
		return 5
	}
	return 0
}

func num(s, prefix string) int {
	var n int
	fmt.Sscanf(s, prefix+"%d", &n)
	return n
}

func podNetworks(kind, ttl int) string {
	one := func(ifn, at string) string {
		return fmt.Sprintf(`{"vSwitchOptions":["vsw-1"],"securityGroupIDs":["sg-1"],"interface":"%s","allocationType":%s}`, ifn, at)
	}
	ttlT := fmt.Sprintf(`{"type":"Fixed","releaseStrategy":"TTL","releaseAfter":"%ds"}`, ttl)
	never := `{"type":"Fixed","releaseStrategy":"Never"}`
	switch kind {
	case 0:
		return `{"podNetworks":[` + one("eth0", `{"type":"Elastic"}`) + `]}`
	case 1:
		return `{"podNetworks":[` + one("eth0", ttlT) + `]}`
	case 2:
		return `{"podNetworks":[` + one("eth0", never) + `]}`
	case 3:
		return `{"podNetworks":[` + one("eth0", never) + "," + one("eth1", ttlT) + `]}`
	case 6: // an elastic interface beside a fixed one
		return `{"podNetworks":[` + one("eth0", `{"type":"Elastic"}`) + "," + one("eth1", ttlT) + `]}`
	case 7:
		return `{"podNetworks":[` + one("eth0", never) + "," + one("eth1", `{"type":"Elastic"}`) + `]}`
	default:
		return `{"podNetworks":[` + one("eth0", ttlT) + "," + one("eth1", never) + `]}`
	}
}

func evalHistory(in []*big.Int) ([]*big.Int, []*big.Int) {
	d := hx.NewD(in)
	d.Int()
	trunk, dual := d.Bool(), d.Bool()
	n := d.Int()
	var recs [][]int
	for i := 0; i < n; i++ {
		recs = append(recs, d.Ints())
	}
	if d.Bad {
		return in, nil
	}
	var out hx.B
	run := func(t *testing.T) {
		stack := "ipv4"
		if dual {
			stack = "dual"
		}
		controlplane.SetConfig(&controlplane.Config{ClusterID: clusterID, VPCID: "vpc-1", IPStack: stack, EnableTrunk: ptr.To(trunk)})
		failCreate, failStatus, conflict, staleGet := 0, 0, 0, 0
		apiHits, apiSeen := 0, 0
		cb := fake.NewClientBuilder().WithScheme(scheme).WithStatusSubresource(&networkv1beta1.PodENI{}).
			WithInterceptorFuncs(interceptor.Funcs{
				Get: func(ctx context.Context, c client.WithWatch, key client.ObjectKey, obj client.Object, opts ...client.GetOption) error {
					if _, ok := obj.(*networkv1beta1.PodENI); ok && staleGet > 0 {
						// a read served from a cache that has not seen the record yet
						staleGet--
						apiHits++
						return k8sErr.NewNotFound(networkv1beta1.Resource("podenis"), key.Name)
					}
					return c.Get(ctx, key, obj, opts...)
				},
				Create: func(ctx context.Context, c client.WithWatch, obj client.Object, opts ...client.CreateOption) error {
					if _, ok := obj.(*networkv1beta1.PodENI); ok && failCreate > 0 {
						failCreate--
						apiHits++
						return k8sErr.NewServerTimeout(networkv1beta1.Resource("podenis"), "create", 1)
					}
					return c.Create(ctx, obj, opts...)
				},
				SubResourceUpdate: func(ctx context.Context, c client.Client, sub string, obj client.Object, opts ...client.SubResourceUpdateOption) error {
					if _, ok := obj.(*networkv1beta1.PodENI); ok {
						if failStatus > 0 {
							failStatus--
							apiHits++
							return k8sErr.NewServerTimeout(networkv1beta1.Resource("podenis"), "update", 1)
						}
						if conflict > 0 {
							conflict--
							apiHits++
							return k8sErr.NewConflict(schema.GroupResource{Resource: "podenis"}, obj.GetName(), fmt.Errorf("injected conflict"))
						}
					}
					return c.SubResource(sub).Update(ctx, obj, opts...)
				},
			})
		for i := 1; i <= 3; i++ {
			node := &corev1.Node{ObjectMeta: metav1.ObjectMeta{Name: fmt.Sprintf("node-%d", i), Labels: map[string]string{
				"topology.kubernetes.io/region": "r", "topology.kubernetes.io/zone": "zone-a", "node.kubernetes.io/instance-type": "ecs.x"}},
				Spec: corev1.NodeSpec{ProviderID: fmt.Sprintf("r.i-%d", i)}}
			if trunk {
				node.Annotations = map[string]string{types.TrunkOn: fmt.Sprintf("eni-trunk-%d", i)}
			}
			cb = cb.WithObjects(node)
		}
		cl := cb.Build()
		cloud := &fakeCloud{enis: map[int]*cEni{}, faults: map[int][]int{}}
		pool, _ := vswitch.NewSwitchPool(100, "10m")
		pc := podctl.VerifNewReconcilePod(cl, cloud, pool, trunk, false)
		ec := podeni.VerifNewReconcilePodENI(cl, cloud, trunk, false)
		ctx := context.Background()
		kinds := map[int]int{} // pod name -> kind, as created last
		t0 := time.Now()
		var inflight chan error
		inflightName := 0

		setFaults := func(r []int) {
			cloud.mu.Lock()
			cloud.faults = map[int][]int{}
			for i := 0; i < r[2] && 4+2*i < len(r); i++ {
				cloud.faults[r[3+2*i]] = append(cloud.faults[r[3+2*i]], r[4+2*i])
			}
			cloud.mu.Unlock()
		}
		snapshot := func() []int {
			cloud.mu.Lock()
			defer cloud.mu.Unlock()
			var ids []int
			for id := range cloud.enis {
				ids = append(ids, id)
			}
			sort.Ints(ids)
			l := []int{len(ids)}
			for _, id := range ids {
				e := cloud.enis[id]
				l = append(l, id, b2i(e.inUse), b2i(e.member), e.tags, int(time.Since(e.born)/time.Second))
			}
			return l
		}
		var pre []int
		emit := func(step, name int, err error) {
			e := 0
			if err != nil || apiHits != apiSeen {
				// an injected API failure was consumed in this step (the collectors only log it)
				e = 1
			}
			apiSeen = apiHits
			out.I(88, step, name, e, int(time.Since(t0)/time.Second))
			pl := &corev1.PodList{}
			_ = cl.List(ctx, pl)
			sort.Slice(pl.Items, func(i, j int) bool { return num(pl.Items[i].Name, "p") < num(pl.Items[j].Name, "p") })
			out.I(len(pl.Items))
			for _, p := range pl.Items {
				ex := 0
				if p.Status.Phase == corev1.PodSucceeded || p.Status.Phase == corev1.PodFailed {
					ex = 1
				}
				kd := kinds[num(p.Name, "p")]
				if !p.DeletionTimestamp.IsZero() {
					kd += 100 // terminating
				}
				out.I(num(p.Name, "p"), num(string(p.UID), "u"), num(p.Spec.NodeName, "node-"), ex, kd)
			}
			rl := &networkv1beta1.PodENIList{}
			_ = cl.List(ctx, rl)
			sort.Slice(rl.Items, func(i, j int) bool { return num(rl.Items[i].Name, "p") < num(rl.Items[j].Name, "p") })
			out.I(len(rl.Items))
			for _, r := range rl.Items {
				del, fin := 0, 0
				if !r.DeletionTimestamp.IsZero() {
					del = 1
				}
				for _, f := range r.Finalizers {
					if f == types.FinalizerPodENI {
						fin = 1
					}
				}
				out.I(num(r.Name, "p"), phaseNum(r.Status.Phase), num(r.Annotations[types.PodUID], "u"), num(r.Labels[types.ENIRelatedNodeName], "node-"), del, fin)
				out.I(len(r.Spec.Allocations))
				for _, a := range r.Spec.Allocations {
					fixed, strat, ttl := 0, 0, 0
					if a.AllocationType.Type == networkv1beta1.IPAllocTypeFixed {
						fixed = 1
						switch a.AllocationType.ReleaseStrategy {
						case networkv1beta1.ReleaseStrategyTTL:
							strat = 1
							if dd, err := time.ParseDuration(a.AllocationType.ReleaseAfter); err == nil {
								ttl = int(dd / time.Second)
							} else {
								ttl = -1
							}
						case networkv1beta1.ReleaseStrategyNever:
							strat = 2
						default:
							strat = 3
						}
					}
					out.I(eniNum(a.ENI.ID), num(a.IPv4, "10.0.0."), fixed, strat, ttl)
				}
				if r.Status.PodLastSeen.IsZero() {
					out.I(-1)
				} else {
					out.I(int(time.Since(r.Status.PodLastSeen.Time) / time.Second))
				}
			}
			cloud.mu.Lock()
			out.I(len(cloud.calls))
			for _, c := range cloud.calls {
				out.Ints(c)
			}
			cloud.calls = nil
			cloud.mu.Unlock()
			out.I(pre...)
			out.I(snapshot()...)
		}

		for _, r := range recs {
			if len(r) == 0 {
				continue
			}
			switch r[0] {
			case 1:
				p := &corev1.Pod{ObjectMeta: metav1.ObjectMeta{Namespace: "default", Name: fmt.Sprintf("p%d", r[1]), UID: k8stypes.UID(fmt.Sprintf("u%d", r[2])),
					Annotations: map[string]string{}},
					Spec:   corev1.PodSpec{NodeName: fmt.Sprintf("node-%d", r[3]), Containers: []corev1.Container{{Name: "c", Image: "i"}}},
					Status: corev1.PodStatus{Phase: corev1.PodPending}}
				if r[4] != 5 {
					p.Annotations[types.PodENI] = "true"
					p.Annotations[types.PodNetworks] = podNetworks(r[4], r[5])
				}
				if r[6] != 0 {
					p.OwnerReferences = []metav1.OwnerReference{{APIVersion: "apps/v1", Kind: "ReplicaSet", Name: "rs", UID: "x"}}
				}
				if cl.Create(ctx, p) == nil {
					kinds[r[1]] = r[4] + 10*r[6]
				}
			case 2:
				p := &corev1.Pod{}
				if cl.Get(ctx, client.ObjectKey{Namespace: "default", Name: fmt.Sprintf("p%d", r[1])}, p) == nil {
					p.Status.Phase = corev1.PodSucceeded
					_ = cl.Status().Update(ctx, p)
				}
			case 3:
				dp := &corev1.Pod{}
				if cl.Get(ctx, client.ObjectKey{Namespace: "default", Name: fmt.Sprintf("p%d", r[1])}, dp) == nil {
					if len(dp.Finalizers) > 0 { // a terminating pod (record 13): its termination ends
						dp.Finalizers = nil
						_ = cl.Update(ctx, dp)
					}
					_ = cl.Delete(ctx, dp)
				}
			case 13:
				// the pod is told to terminate and takes its time: the object carries a deletion timestamp, the containers still run
				tp := &corev1.Pod{}
				if cl.Get(ctx, client.ObjectKey{Namespace: "default", Name: fmt.Sprintf("p%d", r[1])}, tp) == nil && tp.DeletionTimestamp.IsZero() {
					tp.Finalizers = []string{"verif/terminating"}
					_ = cl.Update(ctx, tp)
					_ = cl.Delete(ctx, tp)
				}
			case 4:
				setFaults(r)
				pre = snapshot()
				_, err := pc.Reconcile(ctx, reconcile.Request{NamespacedName: k8stypes.NamespacedName{Namespace: "default", Name: fmt.Sprintf("p%d", r[1])}})
				synctest.Wait()
				emit(4, r[1], err)
			case 5:
				setFaults(r)
				pre = snapshot()
				req := reconcile.Request{NamespacedName: k8stypes.NamespacedName{Namespace: "default", Name: fmt.Sprintf("p%d", r[1])}}
				cloud.mu.Lock()
				armed := cloud.hold != nil && !cloud.parked && inflight == nil
				cloud.mu.Unlock()
				if armed {
					ch := make(chan error, 1)
					go func() { _, err := ec.Reconcile(ctx, req); ch <- err }()
					synctest.Wait()
					select {
					case err := <-ch:
						emit(5, r[1], err)
					default:
						inflight, inflightName = ch, r[1]
					}
				} else {
					_, err := ec.Reconcile(ctx, req)
					synctest.Wait()
					emit(5, r[1], err)
				}
			case 6:
				pre = snapshot()
				ec.VerifGCRecords(ctx)
				synctest.Wait()
				emit(6, 0, nil)
			case 7:
				pre = snapshot()
				ec.VerifGCInterfaces(ctx)
				synctest.Wait()
				emit(7, 0, nil)
			case 8:
				time.Sleep(time.Duration(r[1]) * time.Second)
			case 9:
				cloud.mu.Lock()
				cloud.next++
				e := &cEni{id: cloud.next, tags: r[1], born: time.Now().Add(-time.Duration(r[2]) * time.Second), ip: cloud.next}
				switch r[3] {
				case 1:
					e.inUse, e.member, e.instance, e.trunk = true, true, "i-1", "eni-trunk-1"
				case 2:
					e.inUse, e.instance = true, "i-1"
				}
				cloud.enis[e.id] = e
				cloud.mu.Unlock()
			case 10:
				switch r[1] {
				case 1:
					failCreate = 1
				case 2:
					failStatus = 1
				case 3:
					conflict = 1
				case 4:
					staleGet = 1
				}
			case 11:
				cloud.mu.Lock()
				if cloud.hold == nil {
					cloud.hold = make(chan struct{})
					cloud.parked = false
				}
				cloud.mu.Unlock()
			case 12:
				cloud.mu.Lock()
				h := cloud.hold
				cloud.hold = nil
				cloud.parked = false
				cloud.mu.Unlock()
				if h != nil {
					close(h)
				}
				if inflight != nil {
					err := <-inflight
					synctest.Wait()
					emit(12, inflightName, err)
					inflight = nil
				}
			}
			time.Sleep(100 * time.Millisecond)
		}
		// never leave a parked reconcile behind
		cloud.mu.Lock()
		h := cloud.hold
		cloud.hold = nil
		cloud.mu.Unlock()
		if h != nil {
			close(h)
		}
		if inflight != nil {
			err := <-inflight
			synctest.Wait()
			emit(12, inflightName, err)
		}
	}
	historyRunner(run)
	var a hx.B
	a.L = append(a.L, in...)
	a.I(-555)
	a.L = append(a.L, big.NewInt(int64(len(out.L))))
	a.L = append(a.L, out.L...)
	return a.L, out.L
}

var historyRunner func(f func(t *testing.T))

// ---- generator -----------------------------------------------------------------------------------------

func gen(r *hx.Rand) [][]*big.Int {
	n := hx.N(200)
	prop := os.Getenv("VERIF_PROP")
	var outs [][]*big.Int
	for c := 0; c < n; c++ {
		var b hx.B
		trunk := r.Chance(1, 2)
		b.I(10).Bool(trunk).Bool(r.Chance(1, 4))
		var recs [][]int
		npods := 1 + r.Intn(3)
		uid := map[int]int{}
		alive := map[int]bool{}
		kind := map[int]int{}
		ttl := map[int]int{}
		for p := 1; p <= npods; p++ {
			kind[p] = []int{0, 0, 1, 1, 2, 3, 4, 6, 7}[r.Intn(9)]
			if prop == "C11" {
				kind[p] = []int{0, 1, 1, 2, 3, 4, 4, 6, 7}[r.Intn(9)]
			}
			ttl[p] = []int{60, 300, 900}[r.Intn(3)]
		}
		drive := func(p int) {
			// the work queues: both controllers look at the pod a few times
			for i := 0; i < 2+r.Intn(3); i++ {
				if r.Chance(1, 2) {
					recs = append(recs, []int{4, p, 0})
				}
				recs = append(recs, []int{5, p, 0})
			}
		}
		faulty := func(rec []int) []int {
			if r.Chance(1, 6) {
				return []int{rec[0], rec[1], 1, []int{cCreate, cAttach, cDetach, cDelete}[r.Intn(4)], 1 + r.Intn(2)}
			}
			return rec
		}
		steps := 10 + r.Intn(25)
		for i := 0; i < steps; i++ {
			p := 1 + r.Intn(npods)
			x := r.Intn(100)
			switch {
			case x < 18:
				if !alive[p] {
					uid[p] = p*100 + i + 1
					owned := 0
					if r.Chance(1, 8) {
						owned = 1
					}
					recs = append(recs, []int{1, p, uid[p], 1 + r.Intn(2), kind[p], ttl[p], owned})
					alive[p] = true
					if r.Chance(1, 6) {
						recs = append(recs, []int{10, 1 + r.Intn(3)})
					}
					if r.Chance(1, 5) {
						// the pod goes away while the PodENI controller is inside the cloud attach of its first bind
						recs = append(recs, []int{4, p, 0}, []int{11}, []int{5, p, 0}, []int{2, p}, []int{4, p, 0})
						if r.Chance(1, 2) {
							recs = append(recs, []int{3, p}, []int{4, p, 0})
						}
						recs = append(recs, []int{12})
						alive[p] = false
						drive(p)
						break
					}
					recs = append(recs, faulty([]int{4, p, 0}))
					drive(p)
				}
			case x < 30:
				if alive[p] && kind[p] >= 1 && kind[p] != 5 && r.Chance(1, 3) {
					// the collector sees the pod some time after it last stamped the record, the pod goes away soon afterwards,
					// the collector passes again: the TTL counts from the pass that saw the pod
					recs = append(recs, []int{8, []int{70, 100, 200}[r.Intn(3)]}, []int{6}, []int{8, 20 + r.Intn(30)}, []int{3, p}, []int{4, p, 0}, []int{5, p, 0}, []int{5, p, 0}, []int{6})
					alive[p] = false
					break
				}
				if alive[p] {
					if r.Chance(1, 2) {
						recs = append(recs, []int{2, p})
						recs = append(recs, faulty([]int{4, p, 0}))
					}
					recs = append(recs, []int{3, p})
					alive[p] = false
					if r.Chance(3, 4) {
						recs = append(recs, faulty([]int{4, p, 0}))
						drive(p)
					}
				}
			case x < 45:
				recs = append(recs, faulty([]int{4, p, 0}))
			case x < 62:
				recs = append(recs, faulty([]int{5, p, 0}))
			case x < 70:
				recs = append(recs, []int{6})
			case x < 76:
				recs = append(recs, []int{7})
			case x < 86:
				recs = append(recs, []int{8, []int{5, 61, 310, 620, 1000}[r.Intn(5)]})
			case x < 92:
				recs = append(recs, []int{9, []int{0, 1, 2, 3, 3, 6, 8, 11}[r.Intn(8)], []int{30, 590, 601, 5000}[r.Intn(4)], r.Intn(3)})
			case x < 93:
				recs = append(recs, []int{10, 1 + r.Intn(4)})
			case x < 94:
				// the pod controller looks at a pod whose record it cannot see yet (stale read)
				if alive[p] {
					recs = append(recs, []int{10, 4}, []int{4, p, 0}, []int{5, p, 0})
				}
			case x < 97:
				// a pod that takes long to terminate: both controllers keep looking at it, time passes, at last it goes
				if alive[p] {
					recs = append(recs, []int{13, p}, []int{4, p, 0}, []int{8, []int{30, 400, 1000}[r.Intn(3)]}, []int{4, p, 0}, []int{5, p, 0}, []int{6})
					if r.Chance(2, 3) {
						recs = append(recs, []int{3, p}, []int{4, p, 0})
						alive[p] = false
						drive(p)
					}
				}
			default:
				// the PodENI controller is inside the cloud attach while the pod goes away
				if alive[p] {
					recs = append(recs, []int{11}, []int{5, p, 0}, []int{2, p}, []int{4, p, 0}, []int{3, p}, []int{4, p, 0}, []int{12})
					alive[p] = false
					drive(p)
				}
			}
		}
		// a healthy tail: every pod is looked at by both controllers, the collectors run past every grace period
		for round := 0; round < 3; round++ {
			for p := 1; p <= npods; p++ {
				recs = append(recs, []int{4, p, 0}, []int{5, p, 0}, []int{4, p, 0}, []int{5, p, 0}, []int{5, p, 0})
			}
			recs = append(recs, []int{6}, []int{8, 700}, []int{7}, []int{7})
		}
		for p := 1; p <= npods; p++ {
			recs = append(recs, []int{4, p, 0}, []int{5, p, 0}, []int{5, p, 0})
		}
		recs = append(recs, []int{6})
		b.I(len(recs))
		for _, rec := range recs {
			b.Ints(rec)
		}
		outs = append(outs, b.L)
	}
	return outs
}

func TestVerif_PodENI(t *testing.T) {
	historyRunner = func(f func(t *testing.T)) {
		t.Run("history", func(t *testing.T) { synctest.Test(t, f) })
	}
	hx.Run2(t, gen, func(in []*big.Int) ([]*big.Int, []*big.Int) { return evalHistory(in) })
}
