// Package c18: correspondence harness for property C18 — the real podWebhook
// (pkg/controller/webhook/mutating.go) on generated pods, PodNetworking sets,
// namespaces, eni-config and cluster configuration, through controller-runtime's
// fake client. The JSON patch in the response is applied to the input pod and the
// admitted pod is projected (network list, device request, zone affinity).
package c18

import (
	"context"
	"encoding/json"
	"fmt"
	"k8s.io/apimachinery/pkg/api/resource"
	"math/big"
	"strconv"
	"strings"
	"testing"

	"verifharness/hx"

	jsonpatch "github.com/evanphx/json-patch"
	admissionv1 "k8s.io/api/admission/v1"
	corev1 "k8s.io/api/core/v1"
	metav1 "k8s.io/apimachinery/pkg/apis/meta/v1"
	"k8s.io/apimachinery/pkg/runtime"
	clientgoscheme "k8s.io/client-go/kubernetes/scheme"
	"k8s.io/utils/ptr"
	"sigs.k8s.io/controller-runtime/pkg/client"
	"sigs.k8s.io/controller-runtime/pkg/client/fake"
	"sigs.k8s.io/controller-runtime/pkg/client/interceptor"
	"sigs.k8s.io/controller-runtime/pkg/webhook/admission"

	networkv1beta1 "github.com/AliyunContainerService/terway/pkg/apis/network.alibabacloud.com/v1beta1"
	"github.com/AliyunContainerService/terway/pkg/controller/webhook"
	"github.com/AliyunContainerService/terway/types"
	"github.com/AliyunContainerService/terway/types/controlplane"
)

var scheme = func() *runtime.Scheme {
	s := runtime.NewScheme()
	_ = clientgoscheme.AddToScheme(s)
	_ = networkv1beta1.AddToScheme(s)
	return s
}()

func ifName(l, id int) string {
	if l <= 0 {
		return ""
	}
	if l == 4 && id == 1 {
		return "eth0"
	}
	return strings.Repeat("n", l-1) + string(rune('a'+id%26))
}

type pnet struct {
	iflen, ifid, nvsw, nsg, alloc int
	attachENI                     bool
}

type pnw struct {
	exists, ready, hasSel, fixed bool
	podsel, nssel                int
	zones                        []int
	nvsw, nsg                    int
	attachENI                    bool
}

func strs(prefix string, n int) []string {
	var r []string
	for i := 0; i < n; i++ {
		r = append(r, fmt.Sprintf("%s-%d", prefix, i))
	}
	return r
}

func decPnw(d *hx.D) pnw {
	k := pnw{exists: d.Bool(), ready: d.Bool(), hasSel: d.Bool(), fixed: d.Bool(), podsel: d.Int(), nssel: d.Int()}
	k.zones = d.Ints()
	k.nvsw, k.nsg, k.attachENI = d.Int(), d.Int(), d.Bool()
	return k
}

// builds the PodNetworking object; selector keys are unique per object so that
// the match result of each object is controlled independently
func (k pnw) object(name string, podLabels, nsLabels map[string]string, forRequest bool) *networkv1beta1.PodNetworking {
	pn := &networkv1beta1.PodNetworking{ObjectMeta: metav1.ObjectMeta{Name: name}}
	pn.Spec.VSwitchOptions = strs("vsw-"+name, k.nvsw)
	pn.Spec.SecurityGroupIDs = strs("sg-"+name, k.nsg)
	if k.fixed {
		pn.Spec.AllocationType = networkv1beta1.AllocationType{Type: networkv1beta1.IPAllocTypeFixed, ReleaseStrategy: networkv1beta1.ReleaseStrategyTTL, ReleaseAfter: "5m0s"}
	} else {
		pn.Spec.AllocationType = networkv1beta1.AllocationType{Type: networkv1beta1.IPAllocTypeElastic}
	}
	if k.attachENI {
		pn.Spec.ENIOptions.ENIAttachType = networkv1beta1.ENIOptionTypeENI
	}
	if k.ready {
		pn.Status.Status = networkv1beta1.NetworkingStatusReady
	} else {
		pn.Status.Status = networkv1beta1.NetworkingStatusFail
	}
	for i, z := range k.zones {
		pn.Status.VSwitches = append(pn.Status.VSwitches, networkv1beta1.VSwitch{ID: fmt.Sprintf("vsw-%s-%d", name, i), Zone: "z" + strconv.Itoa(z)})
	}
	if forRequest {
		if k.hasSel {
			pn.Spec.Selector.PodSelector = &metav1.LabelSelector{MatchLabels: map[string]string{"any": "thing"}}
		}
		return pn
	}
	switch k.podsel {
	case 1:
		pn.Spec.Selector.PodSelector = &metav1.LabelSelector{MatchLabels: map[string]string{"p-" + name: "y"}}
		podLabels["p-"+name] = "y"
	case 2:
		pn.Spec.Selector.PodSelector = &metav1.LabelSelector{MatchLabels: map[string]string{"p-" + name: "y"}}
		podLabels["p-"+name] = "n"
	}
	switch k.nssel {
	case 1:
		pn.Spec.Selector.NamespaceSelector = &metav1.LabelSelector{MatchLabels: map[string]string{"n-" + name: "y"}}
		nsLabels["n-"+name] = "y"
	case 2:
		pn.Spec.Selector.NamespaceSelector = &metav1.LabelSelector{MatchLabels: map[string]string{"n-" + name: "y"}}
	}
	return pn
}

func eval(in []*big.Int) []*big.Int {
	d := hx.NewD(in)
	var o hx.B
	inject, trunk, crd, hostnet := d.Bool(), d.Bool(), d.Bool(), d.Bool()
	ncont := d.Int()
	ignored, useENI, fixedName, daemonset := d.Bool(), d.Bool(), d.Bool(), d.Bool()
	prevZone := d.Int()
	prevErr := d.Bool()
	hasNets, hasReq, hasPning, netsOK := d.Bool(), d.Bool(), d.Bool(), d.Bool()
	nn := d.Int()
	var nets []pnet
	for i := 0; i < nn; i++ {
		nets = append(nets, pnet{d.Int(), d.Int(), d.Int(), d.Int(), d.Int(), d.Bool()})
	}
	reqOK := d.Bool()
	nq := d.Int()
	type rq struct {
		k          pnw
		iflen, ifi int
	}
	var reqs []rq
	for i := 0; i < nq; i++ {
		k := decPnw(d)
		reqs = append(reqs, rq{k, d.Int(), d.Int()})
	}
	nsExists := d.Bool()
	np := d.Int()
	var pns []pnw
	for i := 0; i < np; i++ {
		pns = append(pns, decPnw(d))
	}
	cfgOK := d.Bool()
	cfgNvsw, cfgNsg := d.Int(), d.Int()
	pre := d.Int() // device request the first container already carries: 0 none, 1 aliyun/eni=9, 2 aliyun/member-eni=9, 3 aliyun/member-eni=7 (quantities no network list reaches)
	if d.Bad {
		return nil
	}

	names := map[string][2]int{"eth0": {4, 1}, "": {0, 0}}
	nm := func(l, id int) string {
		s := ifName(l, id)
		if _, ok := names[s]; !ok {
			names[s] = [2]int{l, id}
		}
		return s
	}

	podLabels, nsLabels := map[string]string{}, map[string]string{}
	var objs []client.Object
	pod := &corev1.Pod{TypeMeta: metav1.TypeMeta{Kind: "Pod", APIVersion: "v1"},
		ObjectMeta: metav1.ObjectMeta{Name: "pod-0", Namespace: "ns1", Annotations: map[string]string{"unrelated": "x"}}}
	pod.Spec.HostNetwork = hostnet
	for i := 0; i < ncont; i++ {
		pod.Spec.Containers = append(pod.Spec.Containers, corev1.Container{Name: fmt.Sprintf("c%d", i), Image: "img"})
	}
	preName, preQty := "", int64(0)
	if pre != 0 && ncont > 0 {
		preName = []string{"", "aliyun/eni", "aliyun/member-eni", "aliyun/member-eni"}[pre]
		q := resource.MustParse([]string{"", "9", "9", "7"}[pre])
		preQty = q.Value()
		pod.Spec.Containers[0].Resources.Requests = corev1.ResourceList{corev1.ResourceName(preName): q, corev1.ResourceCPU: resource.MustParse("100m")}
		pod.Spec.Containers[0].Resources.Limits = corev1.ResourceList{corev1.ResourceName(preName): q}
	}
	if ignored {
		podLabels[types.IgnoreByTerway] = "true"
	}
	if useENI {
		pod.Annotations[types.PodENI] = "true"
	}
	// IsFixedNamePod: no owner or a StatefulSet owner; IsDaemonSetPod: a DaemonSet owner
	switch {
	case fixedName && daemonset:
		pod.OwnerReferences = []metav1.OwnerReference{{Kind: "StatefulSet", Name: "s", APIVersion: "apps/v1", UID: "u1"}, {Kind: "DaemonSet", Name: "d", APIVersion: "apps/v1", UID: "u2"}}
	case fixedName:
		if in[0].Sign() != 0 {
			pod.OwnerReferences = []metav1.OwnerReference{{Kind: "StatefulSet", Name: "s", APIVersion: "apps/v1", UID: "u1"}}
		}
	case daemonset:
		pod.OwnerReferences = []metav1.OwnerReference{{Kind: "DaemonSet", Name: "d", APIVersion: "apps/v1", UID: "u2"}}
	default:
		pod.OwnerReferences = []metav1.OwnerReference{{Kind: "ReplicaSet", Name: "r", APIVersion: "apps/v1", UID: "u3"}}
	}
	if hasNets {
		if !netsOK {
			pod.Annotations[types.PodNetworks] = "{\"podNetworks\": [ {\"interface\": 3 } ]"
		} else {
			var anno controlplane.PodNetworksAnnotation
			for i, n := range nets {
				e := controlplane.PodNetworks{Interface: nm(n.iflen, n.ifid), VSwitchOptions: strs(fmt.Sprintf("vsw-a%d", i), n.nvsw),
					SecurityGroupIDs: strs(fmt.Sprintf("sg-a%d", i), n.nsg)}
				switch n.alloc {
				case 1:
					e.AllocationType = &networkv1beta1.AllocationType{Type: networkv1beta1.IPAllocTypeElastic}
				case 2:
					e.AllocationType = &networkv1beta1.AllocationType{Type: networkv1beta1.IPAllocTypeFixed, ReleaseStrategy: networkv1beta1.ReleaseStrategyNever}
				case 3:
					e.AllocationType = &networkv1beta1.AllocationType{}
				}
				if n.attachENI {
					e.ENIOptions.ENIAttachType = networkv1beta1.ENIOptionTypeENI
				}
				anno.PodNetworks = append(anno.PodNetworks, e)
			}
			bs, _ := json.Marshal(anno)
			pod.Annotations[types.PodNetworks] = " " + string(bs) // never byte-identical to what the webhook writes back
		}
	}
	if hasReq {
		if !reqOK {
			pod.Annotations[types.PodNetworksRequest] = "[{\"network\": "
		} else {
			var refs []controlplane.PodNetworkRef
			for i, q := range reqs {
				name := fmt.Sprintf("req%d", i)
				refs = append(refs, controlplane.PodNetworkRef{Network: name, InterfaceName: nm(q.iflen, q.ifi)})
				if q.k.exists {
					objs = append(objs, q.k.object(name, podLabels, nsLabels, true))
				}
			}
			bs, _ := json.Marshal(refs)
			pod.Annotations[types.PodNetworksRequest] = string(bs)
		}
	}
	if hasPning {
		pod.Annotations[types.PodNetworking] = "some-pn"
	}
	for i, k := range pns {
		objs = append(objs, k.object(fmt.Sprintf("pn%d", i), podLabels, nsLabels, false))
	}
	if len(podLabels) > 0 {
		pod.Labels = podLabels
	}
	if nsExists {
		objs = append(objs, &corev1.Namespace{ObjectMeta: metav1.ObjectMeta{Name: "ns1", Labels: nsLabels}})
	}
	if cfgOK {
		conf := map[string]interface{}{"version": "1", "security_groups": strs("sg-cfg", cfgNsg)}
		if cfgNvsw > 0 {
			conf["vswitches"] = map[string][]string{"cn-a": strs("vsw-cfg", cfgNvsw)}
		}
		bs, _ := json.Marshal(conf)
		objs = append(objs, &corev1.ConfigMap{ObjectMeta: metav1.ObjectMeta{Name: "eni-config", Namespace: "kube-system"}, Data: map[string]string{"eni_conf": string(bs)}})
	}
	if prevZone != 0 {
		objs = append(objs, &networkv1beta1.PodENI{ObjectMeta: metav1.ObjectMeta{Name: "pod-0", Namespace: "ns1"},
			Spec: networkv1beta1.PodENISpec{Zone: "z" + strconv.Itoa(prevZone), Allocations: []networkv1beta1.Allocation{{IPv4: "10.0.0.1"}}}})
	}
	cb := fake.NewClientBuilder().WithScheme(scheme).WithObjects(objs...)
	if prevErr {
		cb = cb.WithInterceptorFuncs(interceptor.Funcs{Get: func(ctx context.Context, c client.WithWatch, key client.ObjectKey, obj client.Object, opts ...client.GetOption) error {
			if _, ok := obj.(*networkv1beta1.PodENI); ok {
				return fmt.Errorf("injected api failure")
			}
			return c.Get(ctx, key, obj, opts...)
		}})
	}
	cl := cb.Build()
	cfg := &controlplane.Config{EnableTrunk: ptr.To(trunk), EnableWebhookInjectResource: ptr.To(inject), IPAMType: "default"}
	if crd {
		cfg.IPAMType = types.IPAMTypeCRD
	}
	raw, _ := json.Marshal(pod)
	req := &admission.Request{AdmissionRequest: admissionv1.AdmissionRequest{
		Kind: metav1.GroupVersionKind{Kind: "Pod", Version: "v1"}, Namespace: "ns1", Name: "pod-0",
		Object: runtime.RawExtension{Raw: raw}}}
	resp := webhook.VerifPodWebhook(context.Background(), req, cl, cfg)

	if !resp.Allowed {
		if resp.Result != nil && resp.Result.Code == 403 {
			return o.I(1).L
		}
		return o.I(2).L
	}
	if len(resp.Patches) == 0 {
		return o.I(0).L
	}
	pbs, _ := json.Marshal(resp.Patches)
	patch, err := jsonpatch.DecodePatch(pbs)
	if err != nil {
		return o.I(-2).L
	}
	after, err := patch.Apply(raw)
	if err != nil {
		return o.I(-3).L
	}
	out := &corev1.Pod{}
	if err := json.Unmarshal(after, out); err != nil {
		return o.I(-4).L
	}
	parsed, err := controlplane.ParsePodNetworksFromAnnotation(out)
	if err != nil || out.Annotations[types.PodENI] != "true" {
		return o.I(-5).L
	}
	o.I(3, len(parsed.PodNetworks))
	for _, n := range parsed.PodNetworks {
		id, ok := names[n.Interface]
		if !ok {
			id = [2]int{len(n.Interface), 99}
		}
		al := 0
		if n.AllocationType != nil {
			al = 1 // present; anything but Fixed is treated as elastic by every consumer
			if n.AllocationType.Type == networkv1beta1.IPAllocTypeFixed {
				al = 2
			}
		}
		o.I(id[0], id[1], len(n.VSwitchOptions), len(n.SecurityGroupIDs), al)
	}
	cnt, isENI := 0, false
	if len(out.Spec.Containers) > 0 {
		both := 0
		for _, nm := range []corev1.ResourceName{"aliyun/eni", "aliyun/member-eni"} {
			if _, ok := out.Spec.Containers[0].Resources.Requests[nm]; ok {
				both++
			}
		}
		for name, q := range out.Spec.Containers[0].Resources.Requests {
			if string(name) == preName {
				lim := out.Spec.Containers[0].Resources.Limits[name]
				if both == 2 || (q.Value() == preQty && lim.Value() == preQty) {
					continue // what the pod came with, untouched: not something admission wrote
				}
			}
			if name == "aliyun/eni" || name == "aliyun/member-eni" {
				cnt = int(q.Value())
				isENI = name == "aliyun/eni"
				lim, ok := out.Spec.Containers[0].Resources.Limits[name]
				if !ok || lim.Value() != q.Value() {
					cnt = -1
				}
			}
		}
	}
	o.I(cnt).Bool(isENI)
	var aff [][]int
	if a := out.Spec.Affinity; a != nil && a.NodeAffinity != nil && a.NodeAffinity.RequiredDuringSchedulingIgnoredDuringExecution != nil {
		for ti, term := range a.NodeAffinity.RequiredDuringSchedulingIgnoredDuringExecution.NodeSelectorTerms {
			if ti > 0 {
				break
			}
			for _, e := range term.MatchExpressions {
				var zs []int
				if e.Key != corev1.LabelTopologyZone || e.Operator != corev1.NodeSelectorOpIn {
					zs = append(zs, -1)
				}
				for _, v := range e.Values {
					z, _ := strconv.Atoi(strings.TrimPrefix(v, "z"))
					zs = append(zs, z)
				}
				aff = append(aff, zs)
			}
		}
	}
	o.I(len(aff))
	for _, zs := range aff {
		o.Ints(zs)
	}
	return o.L
}

// ---- generator ----------------------------------------------------------------

func genPnw(r *hx.Rand, b *hx.B, forReq bool) {
	exists, ready, hasSel := true, r.Chance(9, 10), false
	if forReq {
		exists = r.Chance(14, 15)
		hasSel = r.Chance(1, 12)
	}
	podsel, nssel := 0, 0
	if !forReq {
		podsel, nssel = []int{0, 1, 1, 2}[r.Intn(4)], []int{0, 0, 1, 2}[r.Intn(4)]
	}
	b.Bool(exists).Bool(ready).Bool(hasSel).Bool(r.Chance(1, 4)).I(podsel, nssel)
	nz := r.Range(0, 4)
	zs := make([]int, nz)
	for i := range zs {
		zs[i] = r.Range(1, 4)
	}
	b.Ints(zs)
	b.I(r.Range(0, 3), []int{0, 1, 2, 5, 10, 11}[r.Intn(6)]).Bool(r.Chance(1, 3))
}

func gen(r *hx.Rand) [][]*big.Int {
	n := hx.N(1500)
	var out [][]*big.Int
	for c := 0; c < n; c++ {
		var b hx.B
		mode := r.Intn(10) // which annotation family this case is mostly about
		hostnet, ignored, ncont := r.Chance(1, 25), r.Chance(1, 25), 1+r.Intn(2)
		if r.Chance(1, 40) {
			ncont = 0
		}
		fixedName := r.Chance(1, 2)
		b.Bool(r.Chance(3, 4)).Bool(r.Bool()).Bool(r.Chance(1, 3)).Bool(hostnet).I(ncont).Bool(ignored)
		b.Bool(r.Chance(1, 4)).Bool(fixedName).Bool(r.Chance(1, 8))
		pz := 0
		if fixedName && r.Chance(1, 2) {
			pz = r.Range(1, 4)
		}
		b.I(pz).Bool(fixedName && r.Chance(1, 30))
		hasNets, hasReq, hasPning := mode < 4, mode >= 4 && mode < 7, false
		if r.Chance(1, 20) {
			hasNets, hasReq, hasPning = r.Bool(), r.Bool(), r.Bool()
		}
		b.Bool(hasNets).Bool(hasReq).Bool(hasPning).Bool(r.Chance(19, 20))
		nn := 0
		if hasNets {
			nn = r.Range(0, 4)
		}
		b.I(nn)
		for i := 0; i < nn; i++ {
			iflen, ifid := 4, 1
			if i > 0 || r.Chance(1, 4) {
				iflen, ifid = []int{1, 3, 4, 4, 5, 5, 0, 6, 7}[r.Intn(9)], r.Range(1, 3)
			}
			b.I(iflen, ifid, r.Range(0, 2), []int{0, 1, 2, 10, 11}[r.Intn(5)], r.Intn(4)).Bool(r.Chance(1, 3))
		}
		b.Bool(r.Chance(19, 20))
		nq := 0
		if hasReq {
			nq = r.Range(0, 3)
		}
		b.I(nq)
		for i := 0; i < nq; i++ {
			genPnw(r, &b, true)
			if i == 0 && r.Bool() {
				b.I(0, 0)
			} else {
				b.I([]int{2, 4, 4, 5, 6}[r.Intn(5)], r.Range(1, 3))
			}
		}
		b.Bool(r.Chance(19, 20))
		np := r.Range(0, 3)
		b.I(np)
		for i := 0; i < np; i++ {
			genPnw(r, &b, false)
		}
		b.Bool(r.Chance(9, 10)).I(r.Range(0, 2), []int{0, 1, 3}[r.Intn(3)])
		b.I([]int{0, 0, 0, 1, 2, 3}[r.Intn(6)])
		out = append(out, b.L)
	}
	return out
}

func TestVerif_C18(t *testing.T) { hx.Run(t, gen, eval) }
