// Package mgr drives the real eni.Manager.Allocate with several resource requests per ADD against stub backends, and
// then does what the daemon does on an error (daemon.go allocIP: Manager.Release of exactly what Allocate returned).
// Each event (a backend's answer, the caller's cancellation) is taken in before the next one happens.
package mgr

import (
	"context"
	"fmt"
	"math/big"
	"sort"
	"sync"
	"testing"
	"testing/synctest"

	"verifharness/hx"

	"github.com/AliyunContainerService/terway/pkg/eni"
	"github.com/AliyunContainerService/terway/rpc"
	"github.com/AliyunContainerService/terway/types/daemon"
)

type stubReq struct{ idx, acc int }

func (*stubReq) ResourceType() eni.ResourceType { return eni.ResourceTypeLocalIP }

type stubRes struct{ id, owner int }

func (*stubRes) ResourceType() eni.ResourceType { return eni.ResourceTypeLocalIP }
func (*stubRes) ToRPC() []*rpc.NetConf          { return nil }
func (*stubRes) ToStore() []daemon.ResourceItem { return nil }

type pend struct {
	ctx context.Context
	ch  chan *eni.AllocResp
}

type world struct {
	mu      sync.Mutex
	pending map[int]*pend
	owned   map[int]bool // resources a backend counts as the pod's
}

type stubNI struct {
	id int
	w  *world
}

func (s *stubNI) Allocate(ctx context.Context, cni *daemon.CNI, request eni.ResourceRequest) (chan *eni.AllocResp, []eni.Trace) {
	rq, ok := request.(*stubReq)
	if !ok || rq.acc != s.id {
		return nil, nil
	}
	ch := make(chan *eni.AllocResp)
	s.w.mu.Lock()
	s.w.pending[rq.idx] = &pend{ctx: ctx, ch: ch}
	s.w.mu.Unlock()
	return ch, nil
}

func (s *stubNI) Release(ctx context.Context, cni *daemon.CNI, res eni.NetworkResource) (bool, error) {
	r, ok := res.(*stubRes)
	if !ok || r.owner != s.id {
		return false, nil
	}
	s.w.mu.Lock()
	delete(s.w.owned, r.id)
	s.w.mu.Unlock()
	return true, nil
}
func (s *stubNI) Priority() int     { return s.id }
func (s *stubNI) Dispose(n int) int { return 0 }
func (s *stubNI) Run(ctx context.Context, podResources []daemon.PodResources, wg *sync.WaitGroup) error {
	return nil
}

func evalIn(in []*big.Int) []*big.Int {
	d := hx.NewD(in)
	if d.Int() != 99 {
		return nil
	}
	nr := d.Int()
	if nr < 0 || nr > 6 {
		return nil
	}
	acc := make([]int, nr)
	nb := 0
	for i := range acc {
		acc[i] = d.Int()
		if acc[i] > nb {
			nb = acc[i]
		}
	}
	nev := d.Int()
	if d.Bad || nb > 6 {
		return nil
	}
	w := &world{pending: map[int]*pend{}, owned: map[int]bool{}}
	var nis []eni.NetworkInterface
	for b := 1; b <= nb; b++ {
		nis = append(nis, &stubNI{id: b, w: w})
	}
	m := eni.NewManager(0, 0, 0, 0, nis, daemon.EniSelectionPolicyMostIPs, nil)
	var reqs []eni.ResourceRequest
	for i := range acc {
		reqs = append(reqs, &stubReq{idx: i + 1, acc: acc[i]})
	}
	cni := &daemon.CNI{PodID: "default/pod-a"}
	ctx, cancel := context.WithCancel(context.Background())
	defer cancel()
	var res eni.NetworkResources
	var err error
	done := false
	go func() {
		r, e := m.Allocate(ctx, cni, &eni.AllocRequest{ResourceRequests: reqs})
		w.mu.Lock()
		res, err, done = r, e, true
		w.mu.Unlock()
	}()
	synctest.Wait()
	for i := 0; i < nev && !d.Bad; i++ {
		switch d.Int() {
		case 1:
			r, kind := d.Int(), d.Int()
			w.mu.Lock()
			p := w.pending[r]
			delete(w.pending, r)
			w.mu.Unlock()
			if p == nil {
				continue
			}
			if kind != 0 && kind != 1 {
				close(p.ch)
				synctest.Wait()
				continue
			}
			id := 100*acc[r-1] + r
			resp := &eni.AllocResp{NetworkConfigs: eni.NetworkResources{&stubRes{id: id, owner: acc[r-1]}}}
			if kind == 1 {
				resp = &eni.AllocResp{Err: fmt.Errorf("injected: backend failed")}
			}
			// as Local does: the resource is the pod's once the answer was taken; if the request's context is gone the
			// backend keeps it
			go func() {
				select {
				case <-p.ctx.Done():
				case p.ch <- resp:
					if kind == 0 {
						w.mu.Lock()
						w.owned[id] = true
						w.mu.Unlock()
					}
				}
			}()
			synctest.Wait()
		case 2:
			cancel()
			synctest.Wait()
		default:
			return nil
		}
	}
	if d.Bad {
		cancel()
		synctest.Wait()
		return nil
	}
	cancel() // the caller's context always ends
	synctest.Wait()
	w.mu.Lock()
	fin := done
	w.mu.Unlock()
	if !fin {
		return []*big.Int{big.NewInt(-7)} // Allocate outlived its context
	}
	if err != nil {
		_ = m.Release(context.Background(), cni, &eni.ReleaseRequest{NetworkResources: res})
	}
	var ret, own []int
	for _, r := range res {
		if s, ok := r.(*stubRes); ok {
			ret = append(ret, s.id)
		}
	}
	w.mu.Lock()
	for id := range w.owned {
		own = append(own, id)
	}
	w.mu.Unlock()
	sort.Ints(ret)
	sort.Ints(own)
	var o hx.B
	o.Bool(err != nil).Ints(ret).Ints(own)
	return o.L
}

var curT *testing.T

func eval(in []*big.Int) (out []*big.Int) {
	synctest.Test(curT, func(t *testing.T) { out = evalIn(in) })
	return
}

func gen(r *hx.Rand) [][]*big.Int {
	var cs [][]*big.Int
	n := hx.N(600)
	for c := 0; c < n; c++ {
		rr := r.Fork()
		nr := rr.Range(1, 4)
		if rr.Chance(1, 2) {
			nr = 2 // the ERDMA pod: a normal address and an ERDMA address
		}
		nb := rr.Range(1, 3)
		var b hx.B
		b.I(99, nr)
		for i := 0; i < nr; i++ {
			a := rr.Range(1, nb)
			if rr.Chance(1, 12) {
				a = 0 // nobody can serve this request
			}
			b.I(a)
		}
		// answers in any order, most of them resources; requests may stay unanswered; a cancellation anywhere
		var evs [][]int
		perm := make([]int, nr)
		for i := range perm {
			perm[i] = i
		}
		for i := nr - 1; i > 0; i-- {
			j := rr.Intn(i + 1)
			perm[i], perm[j] = perm[j], perm[i]
		}
		for _, i := range perm {
			if rr.Chance(1, 6) {
				continue
			}
			kind := 0
			if rr.Chance(1, 4) {
				kind = 1 + rr.Intn(2)
			}
			evs = append(evs, []int{1, i + 1, kind})
		}
		if rr.Chance(1, 3) {
			at := rr.Intn(len(evs) + 1)
			evs = append(evs[:at], append([][]int{{2}}, evs[at:]...)...)
		}
		if rr.Chance(1, 10) && nr > 0 {
			evs = append(evs, []int{1, rr.Range(1, nr), 0}) // a second answer for a request already answered
		}
		b.I(len(evs))
		for _, e := range evs {
			b.I(e...)
		}
		cs = append(cs, b.L)
	}
	return cs
}

func TestVerif_Mgr(t *testing.T) {
	curT = t
	hx.Run(t, gen, eval)
}
