// Package mgr drives the real eni.Manager.Allocate with several resource requests per ADD against stub backends, and
// then does what the daemon does on an error (daemon.go allocIP: Manager.Release of exactly what Allocate returned).
// Each event (a backend's answer, the caller's cancellation) is taken in before the next one happens.
package mgr

import (
	"context"
	"fmt"
	"math/big"
	"sort"
	"sync"
	"testing"
	"testing/synctest"
	"time"

	"verifharness/hx"

	"github.com/AliyunContainerService/terway/pkg/eni"
	"github.com/AliyunContainerService/terway/rpc"
	"github.com/AliyunContainerService/terway/types/daemon"
)

type stubReq struct{ idx, acc int }

func (*stubReq) ResourceType() eni.ResourceType { return eni.ResourceTypeLocalIP }

type stubRes struct{ id, owner int }

func (*stubRes) ResourceType() eni.ResourceType { return eni.ResourceTypeLocalIP }
func (*stubRes) ToRPC() []*rpc.NetConf          { return nil }
func (*stubRes) ToStore() []daemon.ResourceItem { return nil }

type pend struct {
	ctx context.Context
	ch  chan *eni.AllocResp
}

type world struct {
	mu      sync.Mutex
	pending map[int]*pend
	owned   map[int]bool // resources a backend counts as the pod's
	acc     []int
	early   int  // request answered while the dispatch loop asks about the next one (0 = none)
	inEarly bool // the dispatch loop is held in a backend's Allocate
}

func (w *world) resource(r int) (int, *eni.AllocResp) {
	id := 100*w.acc[r-1] + r
	return id, &eni.AllocResp{NetworkConfigs: eni.NetworkResources{&stubRes{id: id, owner: w.acc[r-1]}}}
}

type stubNI struct {
	id int
	w  *world
}

func (s *stubNI) Allocate(ctx context.Context, cni *daemon.CNI, request eni.ResourceRequest) (chan *eni.AllocResp, []eni.Trace) {
	rq, ok := request.(*stubReq)
	if !ok {
		return nil, nil
	}
	s.w.mu.Lock()
	var ep *pend
	if s.w.early > 0 && rq.idx == s.w.early+1 {
		// this backend is slow to answer the dispatch loop (Local.Allocate waits for the interface's lock): the answer
		// to the previous request comes in meanwhile
		ep = s.w.pending[s.w.early]
		delete(s.w.pending, s.w.early)
		if ep != nil {
			s.w.inEarly = true
		}
		s.w.early = 0
	}
	s.w.mu.Unlock()
	if ep != nil {
		id, resp := s.w.resource(rq.idx - 1)
		select {
		case <-ep.ctx.Done():
		case ep.ch <- resp:
			s.w.mu.Lock()
			s.w.owned[id] = true
			s.w.mu.Unlock()
		}
		time.Sleep(time.Millisecond) // the manager collects it
		s.w.mu.Lock()
		s.w.inEarly = false
		s.w.mu.Unlock()
	}
	if rq.acc != s.id {
		return nil, nil
	}
	ch := make(chan *eni.AllocResp)
	s.w.mu.Lock()
	s.w.pending[rq.idx] = &pend{ctx: ctx, ch: ch}
	s.w.mu.Unlock()
	return ch, nil
}

func (s *stubNI) Release(ctx context.Context, cni *daemon.CNI, res eni.NetworkResource) (bool, error) {
	r, ok := res.(*stubRes)
	if !ok || r.owner != s.id {
		return false, nil
	}
	s.w.mu.Lock()
	delete(s.w.owned, r.id)
	s.w.mu.Unlock()
	return true, nil
}
func (s *stubNI) Priority() int     { return s.id }
func (s *stubNI) Dispose(n int) int { return 0 }
func (s *stubNI) Run(ctx context.Context, podResources []daemon.PodResources, wg *sync.WaitGroup) error {
	return nil
}

func evalIn(in []*big.Int) (in2, out []*big.Int) {
	var ib hx.B
	in2 = in
	d := hx.NewD(in)
	if d.Int() != 99 {
		return
	}
	nr := d.Int()
	if nr < 0 || nr > 6 {
		return
	}
	acc := make([]int, nr)
	nb := 0
	for i := range acc {
		acc[i] = d.Int()
		if acc[i] > nb {
			nb = acc[i]
		}
	}
	early := d.Int()
	nev := d.Int()
	if d.Bad || nb > 6 {
		return
	}
	ib.I(99, nr).I(acc...).I(early, nev)
	w := &world{pending: map[int]*pend{}, owned: map[int]bool{}, acc: acc, early: early}
	settle := func() {
		synctest.Wait()
		for {
			w.mu.Lock()
			held := w.inEarly
			w.mu.Unlock()
			if !held {
				return
			}
			time.Sleep(time.Millisecond)
			synctest.Wait()
		}
	}
	var nis []eni.NetworkInterface
	for b := 1; b <= nb; b++ {
		nis = append(nis, &stubNI{id: b, w: w})
	}
	m := eni.NewManager(0, 0, 0, 0, nis, daemon.EniSelectionPolicyMostIPs, nil)
	var reqs []eni.ResourceRequest
	for i := range acc {
		reqs = append(reqs, &stubReq{idx: i + 1, acc: acc[i]})
	}
	cni := &daemon.CNI{PodID: "default/pod-a"}
	ctx, cancel := context.WithCancel(context.Background())
	defer cancel()
	var res eni.NetworkResources
	var err error
	done := false
	go func() {
		r, e := m.Allocate(ctx, cni, &eni.AllocRequest{ResourceRequests: reqs})
		w.mu.Lock()
		res, err, done = r, e, true
		w.mu.Unlock()
	}()
	settle()
	for i := 0; i < nev && !d.Bad; i++ {
		switch d.Int() {
		case 1:
			r, kind := d.Int(), d.Int()
			ib.I(1, r, kind)
			if r < 1 || r > nr {
				continue
			}
			w.mu.Lock()
			p := w.pending[r]
			delete(w.pending, r)
			w.mu.Unlock()
			if p == nil {
				continue
			}
			if kind != 0 && kind != 1 {
				close(p.ch)
				synctest.Wait()
				continue
			}
			id, resp := w.resource(r)
			if kind == 1 {
				resp = &eni.AllocResp{Err: fmt.Errorf("injected: backend failed")}
			}
			// as Local does: the resource is the pod's once the answer was taken; if the request's context is gone the
			// backend keeps it
			go func() {
				select {
				case <-p.ctx.Done():
				case p.ch <- resp:
					if kind == 0 {
						w.mu.Lock()
						w.owned[id] = true
						w.mu.Unlock()
					}
				}
			}()
			synctest.Wait()
		case 2:
			ib.I(2)
			cancel()
			synctest.Wait()
		case 3:
			// the caller's context ends in the very instant in which the backend answers
			r, kind := d.Int(), d.Int()
			d.Int() // placeholder for the observation
			taken := false
			var p *pend
			if r >= 1 && r <= nr {
				w.mu.Lock()
				p = w.pending[r]
				delete(w.pending, r)
				w.mu.Unlock()
			}
			if p != nil && kind != 0 && kind != 1 {
				close(p.ch)
			} else if p != nil {
				id, resp := w.resource(r)
				if kind == 1 {
					resp = &eni.AllocResp{Err: fmt.Errorf("injected: backend failed")}
				}
				go func() {
					select {
					case <-p.ctx.Done():
					case p.ch <- resp:
						// the answer is with the manager's goroutine for this request, which has not run yet
						cancel()
						w.mu.Lock()
						taken = true
						if kind == 0 {
							w.owned[id] = true
						}
						w.mu.Unlock()
					}
				}()
				synctest.Wait()
			}
			cancel()
			synctest.Wait()
			w.mu.Lock()
			ib.I(3, r, kind).Bool(taken)
			w.mu.Unlock()
		default:
			return in, nil
		}
	}
	if d.Bad {
		cancel()
		synctest.Wait()
		return in, nil
	}
	cancel() // the caller's context always ends
	synctest.Wait()
	w.mu.Lock()
	fin := done
	w.mu.Unlock()
	if !fin {
		return ib.L, []*big.Int{big.NewInt(-7)} // Allocate outlived its context
	}
	if err != nil {
		_ = m.Release(context.Background(), cni, &eni.ReleaseRequest{NetworkResources: res})
	}
	var ret, own []int
	for _, r := range res {
		if s, ok := r.(*stubRes); ok {
			ret = append(ret, s.id)
		}
	}
	w.mu.Lock()
	for id := range w.owned {
		own = append(own, id)
	}
	w.mu.Unlock()
	sort.Ints(ret)
	sort.Ints(own)
	var o hx.B
	o.Bool(err != nil).Ints(ret).Ints(own)
	return ib.L, o.L
}

var curT *testing.T

func eval(in []*big.Int) (in2, out []*big.Int) {
	synctest.Test(curT, func(t *testing.T) { in2, out = evalIn(in) })
	return
}

func gen(r *hx.Rand) [][]*big.Int {
	var cs [][]*big.Int
	n := hx.N(600)
	for c := 0; c < n; c++ {
		rr := r.Fork()
		nr := rr.Range(1, 4)
		if rr.Chance(1, 2) {
			nr = 2 // the ERDMA pod: a normal address and an ERDMA address
		}
		nb := rr.Range(1, 3)
		var b hx.B
		b.I(99, nr)
		for i := 0; i < nr; i++ {
			a := rr.Range(1, nb)
			if rr.Chance(1, 12) {
				a = 0 // nobody can serve this request
			}
			b.I(a)
		}
		// an answer that comes in while the dispatch loop is still busy with the next request
		early := 0
		if nr >= 2 && rr.Chance(1, 4) {
			early = rr.Range(1, nr-1)
		}
		b.I(early)
		// answers in any order, most of them resources; requests may stay unanswered; a cancellation anywhere
		var evs [][]int
		perm := make([]int, nr)
		for i := range perm {
			perm[i] = i
		}
		for i := nr - 1; i > 0; i-- {
			j := rr.Intn(i + 1)
			perm[i], perm[j] = perm[j], perm[i]
		}
		for _, i := range perm {
			if rr.Chance(1, 6) {
				continue
			}
			kind := 0
			if rr.Chance(1, 4) {
				kind = 1 + rr.Intn(2)
			}
			evs = append(evs, []int{1, i + 1, kind})
		}
		if rr.Chance(1, 3) {
			at := rr.Intn(len(evs) + 1)
			evs = append(evs[:at], append([][]int{{2}}, evs[at:]...)...)
		} else if len(evs) > 0 && rr.Chance(1, 3) {
			// the cancellation arrives together with one of the answers
			at := rr.Intn(len(evs))
			evs[at] = []int{3, evs[at][1], evs[at][2], 0}
		}
		if rr.Chance(1, 10) && nr > 0 {
			evs = append(evs, []int{1, rr.Range(1, nr), 0}) // a second answer for a request already answered
		}
		b.I(len(evs))
		for _, e := range evs {
			b.I(e...)
		}
		cs = append(cs, b.L)
	}
	return cs
}

func TestVerif_Mgr(t *testing.T) {
	curT = t
	hx.Run2(t, gen, eval)
}
