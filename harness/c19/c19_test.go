package c19

import (
	"context"
	"fmt"
	"math/big"
	"strconv"
	"testing"

	"verifharness/hx"

	corev1 "k8s.io/api/core/v1"
	metav1 "k8s.io/apimachinery/pkg/apis/meta/v1"
	"k8s.io/apimachinery/pkg/runtime"
	k8stypes "k8s.io/apimachinery/pkg/types"
	clientgoscheme "k8s.io/client-go/kubernetes/scheme"
	"sigs.k8s.io/controller-runtime/pkg/client/fake"
	"sigs.k8s.io/controller-runtime/pkg/reconcile"

	terwaydaemon "github.com/AliyunContainerService/terway/daemon"
	"github.com/AliyunContainerService/terway/pkg/aliyun/client"
	networkv1beta1 "github.com/AliyunContainerService/terway/pkg/apis/network.alibabacloud.com/v1beta1"
	ctlnode "github.com/AliyunContainerService/terway/pkg/controller/node"
	"github.com/AliyunContainerService/terway/pkg/eni"
	"github.com/AliyunContainerService/terway/pkg/utils/nodecap"
	"github.com/AliyunContainerService/terway/types"
	"github.com/AliyunContainerService/terway/types/daemon"
)

func b2i(b bool) int {
	if b {
		return 1
	}
	return 0
}

var scheme = func() *runtime.Scheme {
	s := runtime.NewScheme()
	_ = clientgoscheme.AddToScheme(s)
	_ = networkv1beta1.AddToScheme(s)
	return s
}()

func eval(in []*big.Int) []*big.Int {
	d := hx.NewD(in)
	var o hx.B
	switch d.Int() {
	case 1: // daemon getPoolConfig
		lim := &client.Limits{Adapters: d.Int(), IPv4PerAdapter: d.Int(), MemberAdapterLimit: d.Int(), ERdmaAdapters: d.Int()}
		cfg := &daemon.Config{MaxENI: d.Int(), MinENI: d.Int(), EniCapShift: d.Int(), MaxPoolSize: d.Int(), MinPoolSize: d.Int(),
			EnableERDMA: d.Bool(), EniCapRatio: 1}
		if d.Bool() {
			cfg.IPAMType = types.IPAMTypeCRD
		}
		mode := daemon.ModeENIOnly
		if d.Bool() {
			mode = daemon.ModeENIMultiIP
		}
		p, err := terwaydaemon.VerifGetPoolConfig(cfg, mode, lim)
		if err != nil {
			return o.I(-1).L
		}
		o.I(p.MaxENI, p.MaxMemberENI, p.MaxIPPerENI, p.Capacity, p.MaxPoolSize, p.MinPoolSize, p.ERdmaCapacity, p.BatchSize)
	case 2: // Limits methods
		l := &client.Limits{Adapters: d.Int(), IPv4PerAdapter: d.Int(), IPv6PerAdapter: d.Int(), MemberAdapterLimit: d.Int(),
			MaxMemberAdapterLimit: d.Int(), ERdmaAdapters: d.Int()}
		o.I(l.ERDMARes(), l.MultiIPPod(), l.ExclusiveENIPod(), l.TrunkPod(), l.MaximumTrunkPod(), b2i(l.SupportIPv6()), b2i(l.SupportMultiIPIPv6()))
	case 3: // daemon checkInstance
		l := &client.Limits{Adapters: d.Int(), IPv4PerAdapter: d.Int(), IPv6PerAdapter: d.Int(), MemberAdapterLimit: d.Int(), ERdmaAdapters: d.Int()}
		mode := daemon.ModeENIOnly
		if d.Bool() {
			mode = daemon.ModeENIMultiIP
		}
		stack := []string{"ipv4", "dual", "ipv6", "bogus"}[d.Int()&3]
		cfg := &daemon.Config{IPStack: stack, EnableENITrunking: d.Bool(), EnableERDMA: d.Bool()}
		if d.Bool() {
			nodecap.SetNodeCapabilities(nodecap.NodeCapabilityERDMA, "true")
		} else {
			nodecap.SetNodeCapabilities(nodecap.NodeCapabilityERDMA, "")
		}
		v4, v6 := terwaydaemon.VerifCheckInstance(l, mode, cfg)
		o.I(b2i(v4), b2i(v6), b2i(cfg.EnableENITrunking), b2i(cfg.EnableERDMA))
	case 4: // daemon-side Node CR reconcile + controller annotation
		ad, i4, i6, mem, eri := d.Int(), d.Int(), d.Int(), d.Int(), d.Int()
		stack := []string{"", "ipv4", "dual"}[d.Int()%3]
		ct, ce, os, ex := d.Bool(), d.Bool(), d.Bool(), d.Bool()
		mx, mn := d.Int(), d.Int()
		if os {
			nodecap.SetNodeCapabilities(nodecap.NodeCapabilityERDMA, "true")
		} else {
			nodecap.SetNodeCapabilities(nodecap.NodeCapabilityERDMA, "")
		}
		conf := fmt.Sprintf(`{"version":"1","ip_stack":%q,"enable_eni_trunking":%v,"enable_erdma":%v,"max_pool_size":%d,"min_pool_size":%d,"vswitches":{"z1":["vsw-1"]},"security_group":"sg-1"}`,
			stack, ct, ce, mx, mn)
		labels := map[string]string{}
		if ex {
			labels[types.ExclusiveENIModeLabel] = string(types.ExclusiveENIOnly)
		}
		k8sNode := &corev1.Node{ObjectMeta: metav1.ObjectMeta{Name: "n1", Labels: labels}}
		crNode := &networkv1beta1.Node{ObjectMeta: metav1.ObjectMeta{Name: "n1", Labels: labels},
			Spec: networkv1beta1.NodeSpec{
				NodeMetadata: networkv1beta1.NodeMetadata{ZoneID: "z1", InstanceID: "i-1", InstanceType: "t", RegionID: "r"},
				NodeCap: networkv1beta1.NodeCap{Adapters: ad, IPv4PerAdapter: i4, IPv6PerAdapter: i6, MemberAdapterLimit: mem, EriQuantity: eri, TotalAdapters: ad},
			}}
		cm := &corev1.ConfigMap{ObjectMeta: metav1.ObjectMeta{Namespace: "kube-system", Name: "eni-config"},
			Data: map[string]string{"eni_conf": conf}}
		c := fake.NewClientBuilder().WithScheme(scheme).WithObjects(k8sNode, crNode, cm).Build()
		r := eni.VerifNewNodeReconcile(c, "n1")
		ctx := context.Background()
		_, err := r.Reconcile(ctx, reconcile.Request{NamespacedName: k8stypes.NamespacedName{Name: "n1"}})
		if err != nil {
			return o.I(-2).L
		}
		got := &networkv1beta1.Node{}
		if err := c.Get(ctx, k8stypes.NamespacedName{Name: "n1"}, got); err != nil || got.Spec.ENISpec == nil || got.Spec.Pool == nil {
			return o.I(-3).L
		}
		o.I(b2i(got.Spec.ENISpec.EnableIPv4), b2i(got.Spec.ENISpec.EnableIPv6), b2i(got.Spec.ENISpec.EnableTrunk), b2i(got.Spec.ENISpec.EnableERDMA))
		o.I(len(got.Spec.Flavor))
		for _, f := range got.Spec.Flavor {
			o.I(b2i(f.NetworkInterfaceType == networkv1beta1.ENITypeTrunk), b2i(f.NetworkInterfaceTrafficMode == networkv1beta1.NetworkInterfaceTrafficModeHighPerformance), f.Count)
		}
		o.I(got.Spec.Pool.MaxPoolSize, got.Spec.Pool.MinPoolSize)
		// the controller's annotation from that very object
		kn := &corev1.Node{}
		_ = c.Get(ctx, k8stypes.NamespacedName{Name: "n1"}, kn)
		if err := ctlnode.VerifK8sAnno(ctx, c, kn, got); err != nil {
			return o.I(-4).L
		}
		_ = c.Get(ctx, k8stypes.NamespacedName{Name: "n1"}, kn)
		if v, ok := kn.Annotations[string(types.NormalIPTypeIPs)]; ok {
			n, err := strconv.Atoi(v)
			if err != nil {
				return o.I(-5).L
			}
			o.I(n)
		} else {
			o.I(-1)
		}
	default:
		return nil
	}
	if d.Bad {
		return nil
	}
	return o.L
}

// small values enumerate the interesting region; occasionally large or negative
func lim(r *hx.Rand, hi int) int {
	switch r.Intn(10) {
	case 0:
		return 0
	case 1:
		return -r.Range(1, 3)
	case 2:
		return r.Range(hi, 4*hi)
	}
	return r.Range(0, hi)
}

func gen(r *hx.Rand) [][]*big.Int {
	var cs [][]*big.Int
	n := hx.N(400)
	r1, r2, r3, r4 := r.Fork(), r.Fork(), r.Fork(), r.Fork()
	for j := 0; j < 3*n; j++ {
		var b hx.B
		ad := r1.Range(1, 12)
		if r1.Chance(1, 12) {
			ad = lim(r1, 16)
		}
		shift := 0
		if r1.Chance(1, 3) {
			shift = -r1.Range(0, 4)
		}
		if r1.Chance(1, 20) {
			shift = r1.Range(1, 3)
		}
		b.I(1, ad, lim(r1, 30), lim(r1, 12), lim(r1, 4), lim(r1, 10), lim(r1, 6), shift, lim(r1, 300), lim(r1, 40),
			r1.Intn(2), b2i(r1.Chance(1, 5)), b2i(r1.Chance(5, 6)))
		cs = append(cs, b.L)
	}
	for j := 0; j < n; j++ {
		var b hx.B
		b.I(2, r2.Range(0, 12), lim(r2, 30), lim(r2, 30), lim(r2, 12), lim(r2, 12), lim(r2, 4))
		cs = append(cs, b.L)
	}
	for j := 0; j < n; j++ {
		var b hx.B
		i4 := lim(r3, 20)
		i6 := i4
		if r3.Chance(1, 2) {
			i6 = lim(r3, 20)
		}
		b.I(3, r3.Range(0, 12), i4, i6, lim(r3, 6), lim(r3, 4), r3.Intn(2), r3.Intn(4), r3.Intn(2), r3.Intn(2), r3.Intn(2))
		cs = append(cs, b.L)
	}
	for j := 0; j < n/4; j++ {
		var b hx.B
		i4 := r4.Range(1, 20)
		i6 := i4
		if r4.Chance(1, 2) {
			i6 = r4.Range(0, 20)
		}
		b.I(4, r4.Range(1, 10), i4, i6, r4.Range(0, 4)*r4.Intn(2), r4.Range(0, 2), r4.Intn(3), r4.Intn(2), r4.Intn(2), r4.Intn(2), b2i(r4.Chance(1, 4)),
			r4.Range(0, 50), r4.Range(0, 10))
		cs = append(cs, b.L)
	}
	return cs
}

func TestVerif_C19(t *testing.T) { hx.Run(t, gen, eval) }
