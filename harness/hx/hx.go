// Package hx: shared plumbing of the correspondence harness — one splitmix64
// PRNG stream (every random choice derives from VERIF_SEED), the integer-list
// case format shared with the extracted model, and the runner that evaluates
// the real implementation on corpus / replay / generated inputs.
package hx

import (
	"bufio"
	"fmt"
	"math/big"
	"os"
	"strconv"
	"strings"
	"testing"
)

// ---- PRNG -----------------------------------------------------------------

type Rand struct{ s uint64 }

func NewRand(seed uint64) *Rand { return &Rand{s: seed} }

func (r *Rand) U64() uint64 {
	r.s += 0x9e3779b97f4a7c15
	z := r.s
	z = (z ^ (z >> 30)) * 0xbf58476d1ce4e5b9
	z = (z ^ (z >> 27)) * 0x94d049bb133111eb
	return z ^ (z >> 31)
}

// Intn returns a value in [0,n).
func (r *Rand) Intn(n int) int {
	if n <= 0 {
		return 0
	}
	return int(r.U64() % uint64(n))
}

// Range returns a value in [lo,hi].
func (r *Rand) Range(lo, hi int) int { return lo + r.Intn(hi-lo+1) }

func (r *Rand) Bool() bool { return r.U64()&1 == 1 }

// Chance is true with probability num/den.
func (r *Rand) Chance(num, den int) bool { return r.Intn(den) < num }

// Big returns a uniformly random value below 2^bits.
func (r *Rand) Big(bits int) *big.Int {
	v := new(big.Int)
	for i := 0; i < (bits+63)/64; i++ {
		v.Lsh(v, 64)
		v.Or(v, new(big.Int).SetUint64(r.U64()))
	}
	m := new(big.Int).Lsh(big.NewInt(1), uint(bits))
	return v.Mod(v, m)
}

// Fork derives an independent stream (so that adding draws in one generator
// does not shift another).
func (r *Rand) Fork() *Rand { return NewRand(r.U64()) }

// ---- integer lists ----------------------------------------------------------

type B struct{ L []*big.Int }

func (b *B) I(vs ...int) *B {
	for _, v := range vs {
		b.L = append(b.L, big.NewInt(int64(v)))
	}
	return b
}
func (b *B) I64(v int64) *B    { b.L = append(b.L, big.NewInt(v)); return b }
func (b *B) U64(v uint64) *B   { b.L = append(b.L, new(big.Int).SetUint64(v)); return b }
func (b *B) Big(v *big.Int) *B { b.L = append(b.L, new(big.Int).Set(v)); return b }
func (b *B) Bool(v bool) *B {
	if v {
		return b.I(1)
	}
	return b.I(0)
}

// Str appends a length-prefixed byte string.
func (b *B) Str(s string) *B {
	b.I(len(s))
	for i := 0; i < len(s); i++ {
		b.I(int(s[i]))
	}
	return b
}

// Ints appends a length-prefixed list of ints.
func (b *B) Ints(vs []int) *B {
	b.I(len(vs))
	return b.I(vs...)
}

type D struct {
	L   []*big.Int
	pos int
	Bad bool
}

func NewD(l []*big.Int) *D { return &D{L: l} }
func (d *D) Left() int     { return len(d.L) - d.pos }
func (d *D) Pos() int      { return d.pos }
func (d *D) Big() *big.Int {
	if d.pos >= len(d.L) {
		d.Bad = true
		return new(big.Int)
	}
	v := d.L[d.pos]
	d.pos++
	return v
}
func (d *D) Int() int   { return int(d.Big().Int64()) }
func (d *D) Bool() bool { return d.Big().Sign() != 0 }
func (d *D) Str() string {
	n := d.Int()
	if n < 0 || n > d.Left() {
		d.Bad = true
		return ""
	}
	bs := make([]byte, n)
	for i := range bs {
		bs[i] = byte(d.Int())
	}
	return string(bs)
}
func (d *D) Ints() []int {
	n := d.Int()
	if n < 0 || n > d.Left() {
		d.Bad = true
		return nil
	}
	r := make([]int, n)
	for i := range r {
		r[i] = d.Int()
	}
	return r
}
func (d *D) Rest() []*big.Int { r := d.L[d.pos:]; d.pos = len(d.L); return r }

func show(l []*big.Int) string {
	var sb strings.Builder
	for i, v := range l {
		if i > 0 {
			sb.WriteByte(' ')
		}
		sb.WriteString(v.String())
	}
	return sb.String()
}

func parseInts(s string) ([]*big.Int, error) {
	var r []*big.Int
	for _, t := range strings.Fields(s) {
		v, ok := new(big.Int).SetString(t, 10)
		if !ok {
			return nil, fmt.Errorf("bad integer %q", t)
		}
		r = append(r, v)
	}
	return r, nil
}

// ReadInputs reads the input column of a case file (corpus or replay).
func ReadInputs(path string) ([][]*big.Int, error) {
	f, err := os.Open(path)
	if err != nil {
		return nil, err
	}
	defer f.Close()
	var out [][]*big.Int
	sc := bufio.NewScanner(f)
	sc.Buffer(make([]byte, 1<<20), 1<<28)
	for sc.Scan() {
		line := sc.Text()
		if line == "" || line[0] == '#' {
			continue
		}
		parts := strings.Split(line, "|")
		if len(parts) < 2 {
			return nil, fmt.Errorf("malformed case line %q", line)
		}
		in, err := parseInts(parts[1])
		if err != nil {
			return nil, err
		}
		out = append(out, in)
	}
	return out, sc.Err()
}

// PanicOut is the output recorded when the implementation panicked.
var PanicOut = []*big.Int{big.NewInt(-998)}

// Env knobs.
func Seed() uint64 {
	v, err := strconv.ParseUint(os.Getenv("VERIF_SEED"), 10, 64)
	if err != nil {
		return 1
	}
	return v
}
func N(def int) int {
	v, err := strconv.Atoi(os.Getenv("VERIF_N"))
	if err != nil || v <= 0 {
		return def
	}
	return v
}
func Thorough() bool { return os.Getenv("VERIF_TIER") == "thorough" }

// Run evaluates the implementation on: the inputs of VERIF_REPLAY if set
// (nothing else), otherwise the inputs of VERIF_CORPUS (if set) followed by
// gen(rand). Each evaluation runs under recover(); one line per case goes to
// VERIF_OUT. eval may return nil to skip an input it cannot express.
func Run(t *testing.T, gen func(r *Rand) [][]*big.Int, eval func(in []*big.Int) []*big.Int) {
	Run2(t, gen, func(in []*big.Int) ([]*big.Int, []*big.Int) { return in, eval(in) })
}

// Run2 is Run for evaluators that resolve nondeterminism the model cannot predict
// (shuffles, map order, sort ties): eval returns the input annotated with what it
// observed (the annotated input is what the model sees) and the output.
func Run2(t *testing.T, gen func(r *Rand) [][]*big.Int, eval func(in []*big.Int) ([]*big.Int, []*big.Int)) {
	var inputs [][]*big.Int
	var tags []string
	if p := os.Getenv("VERIF_REPLAY"); p != "" {
		in, err := ReadInputs(p)
		if err != nil {
			t.Fatalf("replay: %v", err)
		}
		for i := range in {
			inputs = append(inputs, stripObserved(in[i]))
			tags = append(tags, fmt.Sprintf("r%d", i))
		}
	} else {
		if p := os.Getenv("VERIF_CORPUS"); p != "" {
			in, err := ReadInputs(p)
			if err != nil {
				t.Fatalf("corpus: %v", err)
			}
			for i := range in {
				inputs = append(inputs, stripObserved(in[i]))
				tags = append(tags, fmt.Sprintf("c%d", i))
			}
		}
		g := gen(NewRand(Seed()))
		for i := range g {
			inputs = append(inputs, g[i])
			tags = append(tags, fmt.Sprintf("g%d", i))
		}
	}
	outPath := os.Getenv("VERIF_OUT")
	if outPath == "" {
		t.Fatalf("VERIF_OUT not set")
	}
	f, err := os.Create(outPath)
	if err != nil {
		t.Fatal(err)
	}
	w := bufio.NewWriterSize(f, 1<<20)
	for i, in := range inputs {
		in2, out := safeEval(eval, in)
		if out == nil {
			continue
		}
		fmt.Fprintf(w, "%s | %s | %s\n", tags[i], show(in2), show(out))
	}
	if err := w.Flush(); err != nil {
		t.Fatal(err)
	}
	if err := f.Close(); err != nil {
		t.Fatal(err)
	}
}

func safeEval(eval func(in []*big.Int) ([]*big.Int, []*big.Int), in []*big.Int) (in2, out []*big.Int) {
	defer func() {
		if r := recover(); r != nil {
			in2, out = in, PanicOut
		}
	}()
	return eval(in)
}

// Sub returns a decoder over the next length-prefixed record.
func (d *D) Sub() *D {
	n := d.Int()
	if n < 0 || n > d.Left() {
		d.Bad = true
		return NewD(nil)
	}
	s := NewD(d.L[d.pos : d.pos+n])
	d.pos += n
	return s
}

// Rec appends a length-prefixed record.
func (b *B) Rec(r *B) *B {
	b.I(len(r.L))
	b.L = append(b.L, r.L...)
	return b
}

// stripObserved drops what an earlier run appended to an input (the marker -555, the length and the observed output): a
// replayed or corpus input is evaluated afresh and annotated with what THIS run observes.
func stripObserved(in []*big.Int) []*big.Int {
	for i, v := range in {
		if v.IsInt64() && v.Int64() == -555 {
			return in[:i]
		}
	}
	return in
}
