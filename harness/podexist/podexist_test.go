// Package podexist drives the daemon's PodExist (pkg/k8s) against controller-runtime's fake client: pods of the queried
// name on this node, on another node, absent, and an API that fails.
package podexist

import (
	"context"
	"fmt"
	"math/big"
	"testing"

	corev1 "k8s.io/api/core/v1"
	metav1 "k8s.io/apimachinery/pkg/apis/meta/v1"
	"sigs.k8s.io/controller-runtime/pkg/client"
	"sigs.k8s.io/controller-runtime/pkg/client/fake"
	"sigs.k8s.io/controller-runtime/pkg/client/interceptor"

	"verifharness/hx"

	"github.com/AliyunContainerService/terway/pkg/k8s"
)

func nodeName(n int) string { return fmt.Sprintf("node-%d", n) }
func podName(n int) string  { return fmt.Sprintf("pod-%d", n) }

func eval(in []*big.Int) []*big.Int {
	d := hx.NewD(in)
	if d.Int() != 98 {
		return nil
	}
	me, np := d.Int(), d.Int()
	if np < 0 || np > 16 {
		return nil
	}
	var objs []client.Object
	seen := map[int]bool{}
	for i := 0; i < np; i++ {
		name, node := d.Int(), d.Int()
		if seen[name] {
			return nil // names are unique in a namespace
		}
		seen[name] = true
		objs = append(objs, &corev1.Pod{ObjectMeta: metav1.ObjectMeta{Namespace: "default", Name: podName(name)},
			Spec: corev1.PodSpec{NodeName: nodeName(node)}})
	}
	q, apierr := d.Int(), d.Bool()
	if d.Bad {
		return nil
	}
	c := fake.NewClientBuilder().WithObjects(objs...).WithInterceptorFuncs(interceptor.Funcs{
		Get: func(ctx context.Context, cl client.WithWatch, key client.ObjectKey, obj client.Object, opts ...client.GetOption) error {
			if apierr {
				return fmt.Errorf("injected: the API server is unreachable")
			}
			return cl.Get(ctx, key, obj, opts...)
		}}).Build()
	ok, err := k8s.VerifPodExist(c, nodeName(me), "default", podName(q))
	var o hx.B
	if err != nil {
		return o.I(0, 1).L
	}
	return o.Bool(ok).I(0).L
}

func gen(r *hx.Rand) [][]*big.Int {
	var cs [][]*big.Int
	n := hx.N(300)
	for c := 0; c < n; c++ {
		rr := r.Fork()
		me := rr.Range(1, 3)
		np := rr.Range(0, 5)
		var b hx.B
		b.I(98, me, np)
		names := []int{}
		for i := 0; i < np; i++ {
			name := 1 + i
			node := rr.Range(1, 3)
			if rr.Chance(1, 2) {
				node = me
			}
			names = append(names, name)
			b.I(name, node)
		}
		q := rr.Range(1, 6)
		if len(names) > 0 && rr.Chance(3, 4) {
			q = names[rr.Intn(len(names))]
		}
		b.I(q).Bool(rr.Chance(1, 8))
		cs = append(cs, b.L)
	}
	return cs
}

func TestVerif_PodExist(t *testing.T) { hx.Run(t, gen, eval) }
