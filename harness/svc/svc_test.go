// Package svc: the daemon's RPC service (daemon.networkService: AllocIP / ReleaseIP / GetIPInfo,
// gcPods) on top of the real pool (package pool's World), a recording store around the real
// bolt-backed DiskStorage, and a fake Kubernetes view. Properties C04, C05, C09.
package svc

import (
	"context"
	"encoding/json"
	"fmt"
	"io"
	"math/big"
	"os"
	"path/filepath"
	"runtime"
	"sort"
	"sync"
	"testing"
	"testing/synctest"

	k8sErr "k8s.io/apimachinery/pkg/api/errors"
	"k8s.io/apimachinery/pkg/runtime/schema"

	"verifharness/hx"
	"verifharness/pool"

	terwaydaemon "github.com/AliyunContainerService/terway/daemon"
	"github.com/AliyunContainerService/terway/pkg/k8s"
	"github.com/AliyunContainerService/terway/pkg/storage"
	"github.com/AliyunContainerService/terway/rpc"
	"github.com/AliyunContainerService/terway/types"
	"github.com/AliyunContainerService/terway/types/daemon"
)

// stimuli (besides the pool's RComplete=4, RAdvance=5, RCancel=2)
const (
	SAdd       = 31 // rid pod cid
	SDel       = 32 // rid pod cid
	SGet       = 33 // rid pod cid
	SGC        = 34
	SPodGone   = 35 // pod : deleted from the API server and the node
	SPodExit   = 36 // pod : its sandbox exited (still in the API)
	SAPIErr    = 37 // flag : PodExist fails
	SCrash     = 38 // crash + start (a parked store operation is lost / kept according to where it parked)
	SPark      = 39 // pos : the next store operation parks at 1 before put 2 after put 3 before delete 4 after delete
	SFailRel   = 40 // pod flag : releasing this pod's allocation fails at the interface
	SRecreate  = 44 // pod : the pod object is replaced by a new instance of the same name (new uid)
	SNoRestart = 47 // observation: the restart after a crash failed (the daemon cannot load what it stored)
	SFailSt    = 46 // the disk transaction of the next store mutation fails before it has any effect (error to the caller)
	SGCRace    = 45 // pod rid cid : a GC pass; right after the API has answered its question about this pod (parked on the way back)
	//                          the pod is created again under its name and the ADD of the new sandbox arrives; then the answer is delivered
	// observations
	EReplyRPC = 41 // rid kind code eni a4 a6   (kind 1 add 2 del 3 get; code 0 ok 1 processing 2 error)
	EStore    = 42 // op pod cid eni a4 a6       (op 1 put-begin 2 put-done 3 delete-begin 4 delete-done 5 put-failed 6 delete-failed)
	EGCDone   = 43 // code
)

type podState struct {
	uid          string
	gone, exited bool
}

type fakeK8s struct {
	k8s.Kubernetes
	mu     sync.Mutex
	pods   map[int]*podState
	apiErr bool
	// PodExist for parkPod computes its answer, signals parkIn and waits for parkGate before returning it
	parkPod          int
	parkIn, parkGate chan struct{}
}

func (f *fakeK8s) info(p int, st *podState) *daemon.PodInfo {
	return &daemon.PodInfo{Name: fmt.Sprintf("p%d", p), Namespace: "ns", PodNetworkType: daemon.PodNetworkTypeENIMultiIP,
		PodUID: st.uid, SandboxExited: st.exited}
}
func podOf(name string) int {
	var p int
	fmt.Sscanf(name, "p%d", &p)
	return p
}
func (f *fakeK8s) GetLocalPods() ([]*daemon.PodInfo, error) {
	f.mu.Lock()
	defer f.mu.Unlock()
	var r []*daemon.PodInfo
	var ks []int
	for p := range f.pods {
		ks = append(ks, p)
	}
	sort.Ints(ks)
	for _, p := range ks {
		if !f.pods[p].gone {
			r = append(r, f.info(p, f.pods[p]))
		}
	}
	return r, nil
}
func (f *fakeK8s) GetPod(ctx context.Context, namespace, name string, cache bool) (*daemon.PodInfo, error) {
	f.mu.Lock()
	defer f.mu.Unlock()
	p := podOf(name)
	st, ok := f.pods[p]
	if !ok || st.gone {
		return nil, k8sErr.NewNotFound(schema.GroupResource{Resource: "pods"}, name)
	}
	return f.info(p, st), nil
}
func (f *fakeK8s) PodExist(namespace, name string) (bool, error) {
	f.mu.Lock()
	defer f.mu.Unlock()
	if f.apiErr {
		return false, fmt.Errorf("injected: api server unavailable")
	}
	st, ok := f.pods[podOf(name)]
	ans := ok && !st.gone
	if f.parkGate != nil && f.parkPod == podOf(name) {
		g := f.parkGate
		f.parkGate = nil
		close(f.parkIn)
		f.mu.Unlock()
		<-g
		f.mu.Lock()
	}
	return ans, nil
}
func (f *fakeK8s) GetServiceCIDR() *types.IPNetSet                       { return &types.IPNetSet{} }
func (f *fakeK8s) PatchPodIPInfo(info *daemon.PodInfo, ips string) error { return nil }
func (f *fakeK8s) RecordNodeEvent(eventType, reason, message string)     {}
func (f *fakeK8s) NodeName() string                                      { return "node-1" }
func (f *fakeK8s) RecordPodEvent(a, b, c, d, e string) error             { return nil }

// ---- recording store: the real DiskStorage, with parking points around every mutation -----------

type recStore struct {
	w     *pool.World
	inner storage.Storage
	path  string
	mu    sync.Mutex
	park  int             // position at which the next mutation parks (0: none)
	fail  bool            // the next mutation's disk transaction fails
	gates []chan struct{} // closed by the crash that ends the parked goroutines
}

func recOf(v interface{}) (cid, eni, a4, a6 int) {
	r := v.(daemon.PodResources)
	if r.ContainerID != nil {
		fmt.Sscanf(*r.ContainerID, "c%d", &cid)
	}
	for _, it := range r.Resources {
		var e int
		fmt.Sscanf(it.ENIID, "eni-%d", &e)
		eni = e
		a4, a6 = addr4(it.IPv4), addr6(it.IPv6)
	}
	return
}

func (s *recStore) maybePark(pos int) bool {
	s.mu.Lock()
	if s.park != pos {
		s.mu.Unlock()
		return false
	}
	s.park = 0
	g := make(chan struct{})
	s.gates = append(s.gates, g)
	s.mu.Unlock()
	<-g
	return true
}

func (s *recStore) takeFail() bool {
	s.mu.Lock()
	defer s.mu.Unlock()
	f := s.fail
	s.fail = false
	return f
}

var errCrashed = fmt.Errorf("crashed")

func (s *recStore) openGates() {
	s.mu.Lock()
	for _, g := range s.gates {
		close(g)
	}
	s.gates = nil
	s.mu.Unlock()
}

func (s *recStore) Put(key string, value interface{}) error {
	cid, e, a4, a6 := recOf(value)
	p := podKey(key)
	s.w.Ev(EStore, 1, p, cid, e, a4, a6)
	if s.maybePark(1) {
		return errCrashed
	}
	failing := s.takeFail()
	if failing {
		_ = storage.VerifFailWrites(s.inner, true)
	}
	err := s.inner.Put(key, value)
	if failing {
		if e2 := storage.VerifFailWrites(s.inner, false); e2 != nil {
			panic(e2)
		}
	}
	if err != nil {
		s.w.Ev(EStore, 5, p, cid, e, a4, a6)
	}
	if err == nil {
		s.w.Ev(EStore, 2, p, cid, e, a4, a6)
		if r, ok := value.(daemon.PodResources); ok && r.PodInfo != nil {
			s.w.SetAddUID(p, pool.UIDGen(r.PodInfo.PodUID)) // the uid recorded with the allocation
		}
	}
	if s.maybePark(2) {
		return errCrashed
	}
	return err
}
func (s *recStore) Delete(key string) error {
	p := podKey(key)
	s.w.Ev(EStore, 3, p, 0, 0, 0, 0)
	if s.maybePark(3) {
		return errCrashed
	}
	failing := s.takeFail()
	if failing {
		_ = storage.VerifFailWrites(s.inner, true)
	}
	err := s.inner.Delete(key)
	if failing {
		if e2 := storage.VerifFailWrites(s.inner, false); e2 != nil {
			panic(e2)
		}
	}
	if err == nil {
		s.w.Ev(EStore, 4, p, 0, 0, 0, 0)
	} else {
		s.w.Ev(EStore, 6, p, 0, 0, 0, 0)
	}
	if s.maybePark(4) {
		return errCrashed
	}
	return err
}
func (s *recStore) Get(key string) (interface{}, error) { return s.inner.Get(key) }
func (s *recStore) List() ([]interface{}, error)        { return s.inner.List() }

func podKey(key string) int {
	var p int
	fmt.Sscanf(key, "ns/p%d", &p)
	return p
}
func addr4(s string) int {
	var a, b, c int
	if _, err := fmt.Sscanf(s, "10.%d.%d.%d", &a, &b, &c); err != nil {
		return 0
	}
	return a<<16 | b<<8 | c
}
func addr6(s string) int {
	if s == "" {
		return 0
	}
	for id := 1; id < 4096; id++ {
		if pool.V6(id).String() == s {
			return id
		}
	}
	return 0
}

func openStore(path string) (storage.Storage, error) {
	return storage.NewDiskStorage("pod", path, json.Marshal, func(b []byte) (interface{}, error) {
		r := &daemon.PodResources{}
		if err := json.Unmarshal(b, r); err != nil {
			return nil, err
		}
		return *r, nil
	})
}

// ---- one scripted run -----------------------------------------------------------------------------

type run struct {
	w         *pool.World
	k         *fakeK8s
	st        *recStore
	svc       rpc.TerwayBackendServer
	dir       string
	gen       int
	cans      map[int]context.CancelFunc
	imu       sync.Mutex
	busy      int // RPCs without a reply yet
	v4        bool
	v6        bool
	uidGen    map[int]int
	noQuiesce bool
}

func (r *run) snapshotStore() []int {
	l, _ := r.st.inner.List()
	type row struct{ p, cid, e, a4, a6 int }
	var rows []row
	for _, v := range l {
		pr := v.(daemon.PodResources)
		cid, e, a4, a6 := recOf(v)
		rows = append(rows, row{podOf(pr.PodInfo.Name), cid, e, a4, a6})
	}
	sort.Slice(rows, func(i, j int) bool { return rows[i].p < rows[j].p })
	out := []int{len(rows)}
	for _, x := range rows {
		out = append(out, x.p, x.cid, x.e, x.a4, x.a6)
	}
	return out
}

func (r *run) newService() {
	r.svc = terwaydaemon.VerifNewService(r.k, r.st, r.w.Mgr, r.v4, r.v6)
}

func (r *run) rpcCall(kind, rid, pod, cid int, pre ...bool) {
	parent := r.w.Ctx()
	ctx, cancel := context.WithCancel(parent)
	if len(pre) > 0 && pre[0] {
		cancel()
	}
	r.cans[rid] = cancel
	r.w.BG().Add(1)
	svc, w := r.svc, r.w
	r.imu.Lock()
	r.busy++
	r.imu.Unlock()
	go func() {
		defer w.BG().Done()
		defer func() { r.imu.Lock(); r.busy--; r.imu.Unlock() }()
		name, ns, c := fmt.Sprintf("p%d", pod), "ns", fmt.Sprintf("c%d", cid)
		rec := []int{EReplyRPC, rid, kind, 0, 0, 0, 0}
		classify := func(err error) int {
			if e, ok := err.(*types.Error); ok && e.Code == types.ErrPodIsProcessing {
				return 1
			}
			return 2
		}
		fill := func(confs []*rpc.NetConf) {
			for _, nc := range confs {
				if nc.ENIInfo != nil {
					var b [6]int
					fmt.Sscanf(nc.ENIInfo.MAC, "02:00:00:00:%02x:%02x", &b[0], &b[1])
					rec[4] = b[0]<<8 | b[1]
				}
				if nc.BasicInfo != nil && nc.BasicInfo.PodIP != nil {
					rec[5], rec[6] = addr4(nc.BasicInfo.PodIP.IPv4), addr6(nc.BasicInfo.PodIP.IPv6)
				}
			}
		}
		switch kind {
		case 1:
			rep, err := svc.AllocIP(ctx, &rpc.AllocIPRequest{K8SPodName: name, K8SPodNamespace: ns, K8SPodInfraContainerId: c, Netns: "/proc/1/ns/net"})
			if err != nil {
				rec[3] = classify(err)
			} else {
				fill(rep.NetConfs)
			}
		case 2:
			_, err := svc.ReleaseIP(ctx, &rpc.ReleaseIPRequest{K8SPodName: name, K8SPodNamespace: ns, K8SPodInfraContainerId: c})
			if err != nil {
				rec[3] = classify(err)
			}
		case 3:
			rep, err := svc.GetIPInfo(ctx, &rpc.GetInfoRequest{K8SPodName: name, K8SPodNamespace: ns, K8SPodInfraContainerId: c})
			if err != nil {
				rec[3] = classify(err)
			} else {
				fill(rep.NetConfs)
			}
		}
		if parent.Err() != nil {
			return // the daemon crashed under this request: no reply
		}
		w.Ev(rec...)
	}()
	if !r.noQuiesce {
		r.w.Quiesce()
	}
}

func (r *run) crash() error {
	// what is on disk now is what survives; a goroutine parked inside a store mutation dies with the process
	r.gen++
	next := filepath.Join(r.dir, fmt.Sprintf("pod-%d.db", r.gen))
	src, err := os.Open(r.st.path)
	if err != nil {
		return err
	}
	dst, err := os.Create(next)
	if err != nil {
		return err
	}
	if _, err := io.Copy(dst, src); err != nil {
		return err
	}
	src.Close()
	dst.Close()
	old := r.st
	inner, err := openStore(next)
	if err != nil {
		return err
	}
	r.st = &recStore{w: r.w, inner: inner, path: next}
	err = r.w.Restart(func() {
		old.openGates()
	}, func() []daemon.PodResources {
		l, _ := inner.List()
		return terwaydaemon.VerifFilterENINotFound(terwaydaemon.VerifGetPodResources(l), r.w.AttachedENIs())
	})
	r.newService()
	if err == nil {
		var winners []int
		l, _ := inner.List()
		for _, v := range l {
			pr := v.(daemon.PodResources)
			_, e, a4, a6 := recOf(v)
			p := podOf(pr.PodInfo.Name)
			if oe, o4, o6 := r.w.Owned(p); oe == e && o4 == a4 && o6 == a6 && e != 0 {
				winners = append(winners, p)
			}
		}
		sort.Ints(winners)
		r.w.AnnotateRestart(winners)
	}
	return err
}

// input: pool cfg (see package pool) then records; stimulus kinds: 2 4 5 and 31..39

func eval(t *testing.T) func(in []*big.Int) ([]*big.Int, []*big.Int) {
	return func(in []*big.Int) ([]*big.Int, []*big.Int) {
		c, recs, ok := pool.Decode(in)
		if !ok {
			return in, nil
		}
		var w *pool.World
		t.Run("case", func(t *testing.T) {
			dir := t.TempDir()
			synctest.Test(t, func(t *testing.T) {
				w = pool.NewWorld(c)
				r := &run{w: w, k: &fakeK8s{pods: map[int]*podState{}}, dir: dir, cans: map[int]context.CancelFunc{}, v4: c.On4, v6: c.On6, uidGen: map[int]int{}}
				inner, err := openStore(filepath.Join(dir, "pod-0.db"))
				if err != nil {
					t.Fatalf("store: %v", err)
				}
				r.st = &recStore{w: w, inner: inner, path: filepath.Join(dir, "pod-0.db")}
				w.SetExtra(func() []int { return r.snapshotStore() })
				r.newService()
				if err := w.Start(nil); err != nil {
					t.Fatalf("start: %v", err)
				}
				dead := false
				for _, rec := range recs {
					if len(rec) == 0 || dead {
						continue
					}
					switch rec[0] {
					case SAdd, SDel, SGet:
						pod := rec[2]
						r.k.mu.Lock()
						if _, ok := r.k.pods[pod]; !ok {
							r.k.pods[pod] = &podState{uid: fmt.Sprintf("uid-%d", pod)}
						}
						r.k.mu.Unlock()
						w.Ev(rec[0], rec[1], rec[2], rec[3])
						pre := rec[0] == SAdd && len(rec) > 4 && rec[4] != 0
						if pre {
							w.Ev(pool.RCancel, rec[1])
						}
						r.rpcCall(rec[0]-30, rec[1], rec[2], rec[3], pre)
					case SGC:
						// gcPods takes the service's write lock; a goroutine parked on a sync.RWMutex is not durably
						// blocked for synctest, so a pass is only started when no RPC holds the read lock
						r.imu.Lock()
						busy := r.busy
						r.imu.Unlock()
						if busy > 0 {
							continue
						}
						w.Ev(SGC)
						svc := r.svc
						w.BG().Add(1)
						gctx := w.Ctx()
						go func() {
							defer w.BG().Done()
							err := terwaydaemon.VerifGC(gctx, svc)
							code := 0
							if err != nil {
								code = 1
							}
							if gctx.Err() == nil {
								w.Ev(EGCDone, code)
							}
						}()
						w.Quiesce()
					case SGCRace:
						r.imu.Lock()
						busy := r.busy
						r.imu.Unlock()
						if busy > 0 {
							continue
						}
						pod := rec[1]
						r.k.mu.Lock()
						in, gate := make(chan struct{}), make(chan struct{})
						r.k.parkPod, r.k.parkIn, r.k.parkGate = pod, in, gate
						r.k.mu.Unlock()
						w.Ev(SGC)
						svc := r.svc
						w.BG().Add(1)
						gctx := w.Ctx()
						gcDone := make(chan struct{})
						go func() {
							defer w.BG().Done()
							defer close(gcDone)
							err := terwaydaemon.VerifGC(gctx, svc)
							code := 0
							if err != nil {
								code = 1
							}
							if gctx.Err() == nil {
								w.Ev(EGCDone, code)
							}
						}()
						select {
						case <-in:
							// the API has said what it knows about the pod; the answer is on its way back to the GC pass
							r.k.mu.Lock()
							r.uidGen[pod]++
							r.k.pods[pod] = &podState{uid: fmt.Sprintf("uid-%d-g%d", pod, r.uidGen[pod])}
							r.k.mu.Unlock()
							w.Ev(SRecreate, pod)
							w.Ev(SAdd, rec[2], pod, rec[3])
							r.noQuiesce = true
							r.rpcCall(1, rec[2], pod, rec[3])
							r.noQuiesce = false
							// no synctest.Wait here: the ADD may be parked on the service's RWMutex, which is not a durable block
							for i := 0; i < 3000; i++ {
								runtime.Gosched()
							}
							close(gate)
							<-gcDone
						case <-gcDone: // the pass had no question about this pod
							r.k.mu.Lock()
							r.k.parkGate = nil
							r.k.mu.Unlock()
						}
						w.Quiesce()
					case SPodGone, SPodExit:
						r.k.mu.Lock()
						st, ok := r.k.pods[rec[1]]
						if !ok {
							st = &podState{uid: fmt.Sprintf("uid-%d", rec[1])}
							r.k.pods[rec[1]] = st
						}
						if rec[0] == SPodGone {
							st.gone = true
						} else {
							st.exited = true
						}
						r.k.mu.Unlock()
						w.Ev(rec[0], rec[1])
						w.Quiesce()
					case SRecreate:
						r.k.mu.Lock()
						r.uidGen[rec[1]]++
						r.k.pods[rec[1]] = &podState{uid: fmt.Sprintf("uid-%d-g%d", rec[1], r.uidGen[rec[1]])}
						r.k.mu.Unlock()
						w.Ev(SRecreate, rec[1])
						w.Quiesce()
					case SAPIErr:
						r.k.mu.Lock()
						r.k.apiErr = rec[1] != 0
						r.k.mu.Unlock()
						w.Ev(SAPIErr, rec[1])
						w.Quiesce()
					case SFailRel:
						w.FailRelease[rec[1]] = rec[2] != 0
						w.Ev(SFailRel, rec[1], rec[2])
						w.Quiesce()
					case SFailSt:
						r.st.mu.Lock()
						r.st.fail = true
						r.st.mu.Unlock()
						w.Ev(SFailSt)
						w.Quiesce()
					case SPark:
						r.st.mu.Lock()
						r.st.park = rec[1]
						r.st.mu.Unlock()
						w.Ev(SPark, rec[1])
						w.Quiesce()
					case SCrash:
						w.Ev(SCrash)
						if err := r.crash(); err != nil {
							// the daemon cannot come up from the records it wrote itself: an observation, the history ends here
							t.Logf("crash/restart: %v", err)
							w.Ev(SNoRestart)
							w.Quiesce()
							dead = true
						}
					case pool.RCancel:
						w.Ev(pool.RCancel, rec[1])
						if cn, ok := r.cans[rec[1]]; ok {
							cn()
						}
						w.Quiesce()
					case pool.RComplete:
						w.Complete(rec[1], rec[2])
					case pool.RAdvance:
						w.Advance(rec[1])
					}
				}
				// a goroutine still parked in the store ends with the run
				r.st.openGates()
				w.Stop()
			})
		})
		var o hx.B
		o.I(w.Out...)
		return pool.Encode(c, w.In), o.L
	}
}

// ---- generator ---------------------------------------------------------------------------------------

func genCase(r *hx.Rand, prop string) []*big.Int {
	var c pool.Config
	ns := 1 + r.Intn(2)
	for i := 0; i < ns; i++ {
		c.Types = append(c.Types, 0)
		c.Preload = append(c.Preload, 0)
	}
	if r.Chance(1, 4) {
		c.On4, c.On6 = true, true
	} else {
		c.On4 = true
	}
	c.Cap = 2 + r.Intn(3)
	c.Batch = 1 + r.Intn(2)
	c.MinIdle, c.MaxIdle, c.Tot, c.Policy = 0, 5, ns*c.Cap, 0
	npods := 1 + r.Intn(4)
	n := 10 + r.Intn(30)
	var recs [][]int
	rid := 0
	cidOf := map[int]int{}
	open := []int{}
	if prop == "C04" && r.Chance(1, 4) {
		// a pod whose address sits on the interface the manager would NOT try first: the first interface fills up (two pods),
		// the third pod gets the second interface, the second pod leaves (an idle address on the first, bigger interface);
		// then the third pod's ADD comes again (same sandbox, or a new one)
		ns, npods = 2, 3+r.Intn(2)
		c.Types, c.Preload = []int{0, 0}, []int{0, 0}
		c.Cap, c.Batch, c.Tot = 2, 1, 4
		settle := func() {
			recs = append(recs, []int{pool.RAdvance, 300}, []int{pool.RComplete, 1, pool.OOk}, []int{pool.RComplete, 2, pool.OOk})
		}
		for pod := 1; pod <= 3; pod++ {
			rid++
			cidOf[pod] = pod * 10
			recs = append(recs, []int{SAdd, rid, pod, cidOf[pod]})
			settle()
		}
		rid++
		recs = append(recs, []int{SDel, rid, 2, cidOf[2]})
		rid++
		if r.Chance(1, 2) {
			cidOf[3]++
		}
		recs = append(recs, []int{SAdd, rid, 3, cidOf[3]})
		settle()
		n = 4 + r.Intn(12)
	}
	for i := 0; i < n; i++ {
		x := r.Intn(100)
		pod := 1 + r.Intn(npods)
		cid := cidOf[pod]
		if cid == 0 || r.Chance(1, 6) {
			cid = cidOf[pod] + 1 + r.Intn(2)*0
			if cidOf[pod] == 0 {
				cid = pod * 10
			} else {
				cid = cidOf[pod] + 1
			}
		}
		stale := cid
		if cidOf[pod] != 0 && r.Chance(1, 4) {
			stale = cidOf[pod] - 1 // an older sandbox id
			if stale%10 == 9 || stale <= 0 {
				stale = cidOf[pod] + 5
			}
		}
		switch {
		case x < 28:
			rid++
			if prop != "C05" && r.Chance(1, 10) {
				// the caller has given up before the daemon starts on the request (context already cancelled)
				recs = append(recs, []int{SAdd, rid, pod, cid, 1})
				break
			}
			recs = append(recs, []int{SAdd, rid, pod, cid})
			cidOf[pod] = cid
			open = append(open, rid)
		case x < 42:
			rid++
			recs = append(recs, []int{SDel, rid, pod, stale})
		case x < 50:
			rid++
			recs = append(recs, []int{SGet, rid, pod, stale})
		case x < 70:
			code := pool.OOk
			if prop != "C05" && r.Chance(1, 5) {
				code = 1 + r.Intn(2)
			}
			recs = append(recs, []int{pool.RComplete, 1 + r.Intn(ns), code})
		case x < 78:
			if prop == "C03" && cidOf[pod] != 0 && r.Chance(1, 2) {
				// the pod is deleted and created again under its name: the API shows the new instance (new uid) while
				// the DEL of the old sandbox is still to come
				rid++
				recs = append(recs, []int{SRecreate, pod}, []int{SDel, rid, pod, cidOf[pod]})
				break
			}
			recs = append(recs, []int{pool.RAdvance, []int{300, 300, 1000}[r.Intn(3)]})
		case x < 82:
			if len(open) > 0 {
				recs = append(recs, []int{pool.RCancel, open[r.Intn(len(open))]})
			}
		default:
			switch prop {
			case "C09", "C03": // C03: the agent reports a teardown outside a DEL only for pods it verified to be gone
				switch r.Intn(6) {
				case 0, 1:
					recs = append(recs, []int{SGC})
				case 2:
					if r.Chance(1, 2) {
						recs = append(recs, []int{SFailRel, pod, 1})
					} else {
						recs = append(recs, []int{SGC})
					}
				case 3:
					recs = append(recs, []int{SPodGone, pod})
					if prop == "C09" && cidOf[pod] != 0 && r.Chance(1, 2) {
						// the pod comes back under its name while the GC pass that found it gone is still running
						rid++
						cidOf[pod]++
						recs = append(recs, []int{SGCRace, pod, rid, cidOf[pod]})
					}
				case 4:
					recs = append(recs, []int{SPodExit, pod})
				default:
					recs = append(recs, []int{SAPIErr, r.Intn(2)})
				}
			case "C05":
				switch r.Intn(5) {
				case 0, 1:
					recs = append(recs, []int{SCrash})
				case 2:
					recs = append(recs, []int{SFailSt})
					if cidOf[pod] != 0 && r.Chance(1, 2) {
						// the failing write hits the ADD of a new sandbox of a pod that holds an acknowledged allocation; other pods ask next,
						// then the daemon dies: what was acknowledged must be what the restart finds
						rid++
						cidOf[pod]++
						recs = append(recs, []int{SAdd, rid, pod, cidOf[pod]})
						for k := 0; k < 2; k++ {
							q := 1 + r.Intn(npods)
							if q == pod {
								continue
							}
							rid++
							if cidOf[q] == 0 {
								cidOf[q] = q * 10
							}
							recs = append(recs, []int{SAdd, rid, q, cidOf[q]})
						}
						recs = append(recs, []int{SCrash})
					}
				default:
					recs = append(recs, []int{SPark, 1 + r.Intn(4)})
				}
			default:
				if prop == "C04" && r.Chance(1, 4) {
					recs = append(recs, []int{SFailSt})
				} else if r.Chance(1, 3) {
					recs = append(recs, []int{SGC})
				} else if r.Chance(1, 2) {
					recs = append(recs, []int{SPodGone, pod})
				}
			}
		}
	}
	return pool.Encode(c, recs)
}

func gen(r *hx.Rand) [][]*big.Int {
	n := hx.N(200)
	prop := os.Getenv("VERIF_PROP")
	var out [][]*big.Int
	for i := 0; i < n; i++ {
		out = append(out, genCase(r.Fork(), prop))
	}
	return out
}

func TestVerif_Svc(t *testing.T) {
	ev := eval(t)
	if os.Getenv("VERIF_PROP") == "C03" {
		// the cases of this harness reach the C03 checker together with those of the cluster IPAM harness: marker 9
		hx.Run2(t, gen, func(in []*big.Int) ([]*big.Int, []*big.Int) {
			if len(in) > 0 && in[0].Int64() == 9 {
				in = in[1:]
			}
			a, o := ev(in)
			if o == nil {
				return a, o
			}
			return append([]*big.Int{big.NewInt(9)}, a...), o
		})
		return
	}
	hx.Run2(t, gen, ev)
}
