package c16

import (
	"math/big"
	"os"
	"sort"
	"strconv"
	"sync"
	"testing"

	"verifharness/hx"

	"github.com/AliyunContainerService/terway/pkg/aliyun/client"
)

type params struct {
	vsw          string
	trunk, erdma bool
	sgs          []string
	rg           string
	ipc, ip6c    int
	del, sd      int // -1 nil, 0 false, 1 true
	tags         [][2]string
	inst, zone   string
	eni          string
}

func (p *params) enc(b *hx.B, r *hx.Rand) {
	b.Str(p.vsw).Bool(p.trunk).Bool(p.erdma).I(len(p.sgs))
	for _, s := range p.sgs {
		b.Str(s)
	}
	b.Str(p.rg).I(p.ipc, p.ip6c, p.del, p.sd).I(len(p.tags))
	// the wire order of tags is shuffled per issue: a Go map has no order anyway
	idx := make([]int, len(p.tags))
	for i := range idx {
		idx[i] = i
	}
	for i := len(idx) - 1; i > 0; i-- {
		j := r.Intn(i + 1)
		idx[i], idx[j] = idx[j], idx[i]
	}
	for _, i := range idx {
		b.Str(p.tags[i][0]).Str(p.tags[i][1])
	}
	b.Str(p.inst).Str(p.zone).Str(p.eni)
}

func decParams(d *hx.D) *client.NetworkInterfaceOptions {
	o := &client.NetworkInterfaceOptions{}
	o.VSwitchID = d.Str()
	o.Trunk, o.ERDMA = d.Bool(), d.Bool()
	n := d.Int()
	for i := 0; i < n && !d.Bad; i++ {
		o.SecurityGroupIDs = append(o.SecurityGroupIDs, d.Str())
	}
	o.ResourceGroupID = d.Str()
	o.IPCount, o.IPv6Count = d.Int(), d.Int()
	if v := d.Int(); v >= 0 {
		b := v == 1
		o.DeleteENIOnECSRelease = &b
	}
	if v := d.Int(); v >= 0 {
		b := v == 1
		o.SourceDestCheck = &b
	}
	n = d.Int()
	if n > 0 {
		o.Tags = map[string]string{}
	}
	for i := 0; i < n && !d.Bad; i++ {
		k := d.Str()
		o.Tags[k] = d.Str()
	}
	o.InstanceID, o.ZoneID, o.NetworkInterfaceID = d.Str(), d.Str(), d.Str()
	return o
}

// concurrent round: K identical requests fail and put their tokens back, then P goroutines
// issue the same request at once; tokens are renamed (put-back ones 0..K-1, fresh ones K..) and sorted
func evalConcurrent(k, p int) []*big.Int {
	os.Setenv("IDEMPOTENT_KEY_CACHE_SIZE", "500")
	gen := client.NewIdempotentKeyGenerator()
	nio := &client.NetworkInterfaceOptions{NetworkInterfaceID: "eni-1", IPCount: 3}
	names := map[string]int{}
	var rbs []func()
	for i := 0; i < k; i++ {
		req, rb, err := (&client.AssignPrivateIPAddressOptions{NetworkInterfaceOptions: nio}).Finish(gen)
		if err != nil {
			return nil
		}
		names[req.ClientToken] = len(names)
		rbs = append(rbs, rb)
	}
	for _, rb := range rbs {
		rb()
	}
	toks := make([]string, p)
	var wg sync.WaitGroup
	start := make(chan struct{})
	for g := 0; g < p; g++ {
		wg.Add(1)
		go func(g int) {
			defer wg.Done()
			<-start
			req, _, err := (&client.AssignPrivateIPAddressOptions{NetworkInterfaceOptions: nio}).Finish(gen)
			if err == nil {
				toks[g] = req.ClientToken
			}
		}(g)
	}
	close(start)
	wg.Wait()
	var ids []int
	fresh := map[string]int{}
	for _, t := range toks {
		if id, ok := names[t]; ok {
			ids = append(ids, id)
		} else {
			if _, ok := fresh[t]; !ok {
				fresh[t] = len(fresh)
			}
			ids = append(ids, -1-fresh[t]) // placeholder, renamed after sorting
		}
	}
	// fresh tokens are interchangeable: number them k, k+1, .. (a duplicate keeps one number)
	var o hx.B
	var out []int
	for _, id := range ids {
		if id >= 0 {
			out = append(out, id)
		} else {
			out = append(out, k+(-1-id))
		}
	}
	sort.Ints(out)
	o.I(out...)
	if o.L == nil {
		o.L = []*big.Int{}
	}
	return o.L
}

func eval(in []*big.Int) []*big.Int {
	d := hx.NewD(in)
	if in[0].Sign() < 0 {
		d.Int()
		return evalConcurrent(d.Int(), d.Int())
	}
	capN, nops := d.Int(), d.Int()
	os.Setenv("IDEMPOTENT_KEY_CACHE_SIZE", strconv.Itoa(capN))
	gen := client.NewIdempotentKeyGenerator()
	names := map[string]int{}
	type fl struct{ rollback func() }
	inflight := map[int]fl{}
	var o hx.B
	for i := 0; i < nops; i++ {
		ln := d.Int()
		if d.Bad || ln > d.Left() {
			return nil
		}
		od := hx.NewD(d.L[len(d.L)-d.Left() : len(d.L)-d.Left()+ln])
		for j := 0; j < ln; j++ {
			d.Big()
		}
		switch od.Int() {
		case 0:
			rid, builder := od.Int(), od.Int()
			nio := decParams(od)
			if od.Bad {
				return nil
			}
			var tok string
			var rb func()
			var err error
			switch builder {
			case 0:
				req, r, e := (&client.CreateNetworkInterfaceOptions{NetworkInterfaceOptions: nio}).Finish(gen)
				if e == nil {
					tok = req.ClientToken
				}
				rb, err = r, e
			case 1:
				req, r, e := (&client.CreateNetworkInterfaceOptions{NetworkInterfaceOptions: nio}).EFLO(gen)
				if e == nil {
					tok = req.ClientToken
				}
				rb, err = r, e
			case 2:
				req, r, e := (&client.AssignPrivateIPAddressOptions{NetworkInterfaceOptions: nio}).Finish(gen)
				if e == nil {
					tok = req.ClientToken
				}
				rb, err = r, e
			case 3:
				req, r, e := (&client.AssignPrivateIPAddressOptions{NetworkInterfaceOptions: nio}).EFLO(gen)
				if e == nil {
					tok = req.ClientToken
				}
				rb, err = r, e
			case 4:
				req, r, e := (&client.AssignIPv6AddressesOptions{NetworkInterfaceOptions: nio}).Finish(gen)
				if e == nil {
					tok = req.ClientToken
				}
				rb, err = r, e
			default:
				return nil
			}
			if err != nil {
				o.I(-1)
				continue
			}
			id, ok := names[tok]
			if !ok {
				id = len(names)
				names[tok] = id
			}
			o.I(id)
			inflight[rid] = fl{rollback: rb}
		case 1:
			rid := od.Int()
			if f, ok := inflight[rid]; ok {
				f.rollback()
				delete(inflight, rid)
			}
		case 2:
			delete(inflight, od.Int())
		default:
			return nil
		}
	}
	return o.L
}

var words = []string{"a", "b", "ab", "ba", "k8s", "creator", "terway", "ack.aliyun.com", "cluster-1", "z", "aa", "", "A", "a b", "\xff", "x\x00y"}

func word(r *hx.Rand) string { return words[r.Intn(len(words))] }

func genParams(r *hx.Rand) *params {
	p := &params{vsw: "vsw-" + word(r), rg: word(r), del: r.Intn(3) - 1, sd: r.Intn(3) - 1,
		inst: "i-" + word(r), zone: word(r), eni: "eni-" + word(r)}
	if r.Chance(1, 12) {
		p.vsw = ""
	}
	if r.Chance(1, 12) {
		p.eni = ""
	}
	p.trunk, p.erdma = r.Chance(1, 4), r.Chance(1, 4)
	for i := r.Intn(4); i > 0; i-- {
		p.sgs = append(p.sgs, "sg-"+word(r))
	}
	if r.Chance(1, 10) && len(p.sgs) > 0 {
		p.sgs[0] = ""
	}
	p.ipc, p.ip6c = r.Range(-1, 12), r.Range(-1, 5)
	if r.Chance(1, 3) {
		p.ip6c = p.ipc // a dual-stack interface is filled with as many IPv6 as IPv4 addresses: two different calls with equal arguments
	}
	nt := r.Intn(7)
	if r.Chance(1, 6) {
		nt = r.Range(7, 48) // any number of tags
	}
	seen := map[string]bool{}
	for i := 0; i < nt; i++ {
		k := word(r)
		if r.Bool() {
			k += word(r)
		}
		if nt > 7 {
			k += strconv.Itoa(r.Intn(60))
		}
		if seen[k] {
			continue
		}
		seen[k] = true
		p.tags = append(p.tags, [2]string{k, word(r)})
	}
	return p
}

func mutate(r *hx.Rand, p *params) *params {
	q := *p
	q.sgs = append([]string(nil), p.sgs...)
	q.tags = append([][2]string(nil), p.tags...)
	switch r.Intn(7) {
	case 0:
		q.ipc++
	case 1:
		q.ip6c++
	case 2:
		q.vsw += "x"
	case 3:
		if len(q.tags) > 0 {
			q.tags[r.Intn(len(q.tags))][1] += "!"
		} else {
			q.tags = append(q.tags, [2]string{"new", "tag"})
		}
	case 4:
		if len(q.tags) > 1 { // swap two values: same keys, same value multiset
			q.tags[0][1], q.tags[1][1] = q.tags[1][1], q.tags[0][1]
		}
	case 5:
		q.trunk = !q.trunk
	case 6:
		q.eni += "y"
	}
	return &q
}

func gen(r *hx.Rand) [][]*big.Int {
	var cs [][]*big.Int
	n := hx.N(300)
	rc := r.Fork()
	for c := 0; c < 2*n; c++ { // concurrent rounds
		var b hx.B
		cs = append(cs, b.I(-1, rc.Range(1, 6), rc.Range(2, 8)).L)
	}
	for c := 0; c < n; c++ {
		rr := r.Fork()
		npool := rr.Range(1, 5)
		var pool []*params
		for i := 0; i < npool; i++ {
			if i > 0 && rr.Chance(1, 2) {
				pool = append(pool, mutate(rr, pool[rr.Intn(i)]))
			} else {
				pool = append(pool, genParams(rr))
			}
		}
		capN := 500
		if rr.Chance(1, 4) {
			capN = rr.Range(1, 6) // small LRU: eviction paths (agreement only beyond cap distinct hashes)
		}
		nops := rr.Range(3, 40)
		var b hx.B
		b.I(capN, nops)
		var live []int
		rid := 0
		for i := 0; i < nops; i++ {
			var ob hx.B
			x := rr.Intn(10)
			switch {
			case x < 6 || len(live) == 0:
				rid++
				ob.I(0, rid, rr.Intn(5))
				if rr.Chance(3, 5) {
					ob.L[2] = big.NewInt(0) // create/ECS is the builder with tags
				}
				pool[rr.Intn(len(pool))].enc(&ob, rr)
				live = append(live, rid)
			case x < 9:
				j := rr.Intn(len(live))
				ob.I(1, live[j])
				live = append(live[:j], live[j+1:]...)
			default:
				j := rr.Intn(len(live))
				ob.I(2, live[j])
				live = append(live[:j], live[j+1:]...)
			}
			b.I(len(ob.L))
			b.L = append(b.L, ob.L...)
		}
		cs = append(cs, b.L)
	}
	return cs
}

func TestVerif_C16(t *testing.T) { hx.Run(t, gen, eval) }
