//go:build verif

package webhook

import (
	"context"

	"sigs.k8s.io/controller-runtime/pkg/client"
	"sigs.k8s.io/controller-runtime/pkg/webhook"

	"github.com/AliyunContainerService/terway/types/controlplane"
)

// VerifPodWebhook runs the pod admission handler.
func VerifPodWebhook(ctx context.Context, req *webhook.AdmissionRequest, c client.Client, config *controlplane.Config) webhook.AdmissionResponse {
	return podWebhook(ctx, req, c, config)
}
