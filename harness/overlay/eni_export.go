//go:build verif

package eni

import (
	"k8s.io/client-go/tools/record"
	"sigs.k8s.io/controller-runtime/pkg/client"
	"sigs.k8s.io/controller-runtime/pkg/reconcile"
)

// VerifNewNodeReconcile builds the daemon-side Node CR reconciler; the ERDMA device
// plugin (a kubelet socket server) is never started.
func VerifNewNodeReconcile(c client.Client, nodeName string) reconcile.Reconciler {
	r := &nodeReconcile{client: c, record: record.NewFakeRecorder(1000), nodeName: nodeName}
	r.once.Do(func() {})
	return r
}
