//go:build verif

package eni

import (
	podENITypes "github.com/AliyunContainerService/terway/pkg/apis/network.alibabacloud.com/v1beta1"
	"github.com/AliyunContainerService/terway/rpc"
	"github.com/AliyunContainerService/terway/types/daemon"
	"k8s.io/client-go/tools/record"
	"sigs.k8s.io/controller-runtime/pkg/client"
	"sigs.k8s.io/controller-runtime/pkg/reconcile"
)

// VerifNewNodeReconcile builds the daemon-side Node CR reconciler; the ERDMA device
// plugin (a kubelet socket server) is never started.
func VerifNewNodeReconcile(c client.Client, nodeName string) reconcile.Reconciler {
	r := &nodeReconcile{client: c, record: record.NewFakeRecorder(1000), nodeName: nodeName}
	r.once.Do(func() {})
	return r
}

// VerifRemoteToRPC builds a RemoteIPResource and renders it.
func VerifRemoteToRPC(trunk *daemon.ENI, podENI *podENITypes.PodENI) []*rpc.NetConf {
	r := &RemoteIPResource{podENI: *podENI}
	if trunk != nil {
		r.trunkENI = *trunk
	}
	return r.ToRPC()
}
