//go:build verif

package eni

import (
	"context"
	"net/netip"
	"time"

	"golang.org/x/time/rate"

	podENITypes "github.com/AliyunContainerService/terway/pkg/apis/network.alibabacloud.com/v1beta1"
	"github.com/AliyunContainerService/terway/rpc"
	"github.com/AliyunContainerService/terway/types/daemon"
	"k8s.io/client-go/tools/record"
	"sigs.k8s.io/controller-runtime/pkg/client"
	"sigs.k8s.io/controller-runtime/pkg/reconcile"
)

// VerifNewNodeReconcile builds the daemon-side Node CR reconciler; the ERDMA device
// plugin (a kubelet socket server) is never started.
func VerifNewNodeReconcile(c client.Client, nodeName string) reconcile.Reconciler {
	r := &nodeReconcile{client: c, record: record.NewFakeRecorder(1000), nodeName: nodeName}
	r.once.Do(func() {})
	return r
}

// VerifRemoteToRPC builds a RemoteIPResource and renders it.
func VerifRemoteToRPC(trunk *daemon.ENI, podENI *podENITypes.PodENI) []*rpc.NetConf {
	r := &RemoteIPResource{podENI: *podENI}
	if trunk != nil {
		r.trunkENI = *trunk
	}
	return r.ToRPC()
}

// ---- pool observation (properties C01 C04 C05 C06 C07 C09) --------------------------------

// VerifSetRateLimit replaces the package's cloud-call rate (the limiters are built from it in NewLocal).
func VerifSetRateLimit(l rate.Limit) { rateLimit = l }

type VerifIP struct {
	Addr    netip.Addr
	Pod     string
	Status  int // 1 valid 2 invalid 3 deleting (ipStatus)
	Primary bool
}

type VerifSnap struct {
	Status                       int // 0 init 1 creating 2 inUse 3 deleting
	ENI                          *daemon.ENI
	Inhibit                      time.Time
	V4, V6                       []VerifIP
	Alloc4, Alloc6, Dang4, Dang6 []*LocalIPRequest
}

// VerifSnapshot reads the slot's state under its lock without calling any mutating accessor.
func (l *Local) VerifSnapshot() VerifSnap {
	l.cond.L.Lock()
	defer l.cond.L.Unlock()
	s := VerifSnap{Status: int(l.status), Inhibit: l.ipAllocInhibitExpireAt}
	if l.eni != nil {
		e := *l.eni
		s.ENI = &e
	}
	for _, v := range l.ipv4 {
		s.V4 = append(s.V4, VerifIP{v.ip, v.podID, int(v.status), v.primary})
	}
	for _, v := range l.ipv6 {
		s.V6 = append(s.V6, VerifIP{v.ip, v.podID, int(v.status), v.primary})
	}
	s.Alloc4 = append(s.Alloc4, l.allocatingV4...)
	s.Alloc6 = append(s.Alloc6, l.allocatingV6...)
	s.Dang4 = append(s.Dang4, l.dangingV4...)
	s.Dang6 = append(s.Dang6, l.dangingV6...)
	return s
}

// VerifReqDone reports whether the request's worker context is cancelled.
func VerifReqDone(r *LocalIPRequest) bool {
	select {
	case <-r.workerCtx.Done():
		return true
	default:
		return false
	}
}

// VerifSync runs one periodic metadata sync.
func (l *Local) VerifSync() { l.sync() }

// VerifSyncPool runs one balancer pass.
func (m *Manager) VerifSyncPool(ctx context.Context) { m.syncPool(ctx) }

// VerifCRDV2MultiIP runs the daemon's lookup of the addresses the cluster IPAM bound to a pod (CRDV2.multiIP) against the
// given client; no manager, no background loops.
func VerifCRDV2MultiIP(ctx context.Context, c client.Client, nodeName string, cni *daemon.CNI) *AllocResp {
	r := &CRDV2{client: c, nodeName: nodeName, deletedPods: map[string]*podENITypes.RuntimePodStatus{}}
	ch, _ := r.multiIP(ctx, cni, NewLocalIPRequest())
	select {
	case resp := <-ch:
		return resp
	case <-ctx.Done():
		return nil
	}
}

// ---- the node agent's teardown reports (C03) ---------------------------------------------------------------------

// VerifNewCRDV2 builds the CRD-mode resource manager around a client; no controller manager, no background loops.
func VerifNewCRDV2(c client.Client, nodeName string) *CRDV2 {
	return &CRDV2{client: c, scheme: c.Scheme(), nodeName: nodeName, deletedPods: map[string]*podENITypes.RuntimePodStatus{}}
}

// VerifCRDV2MultiIPOn is VerifCRDV2MultiIP on an existing manager (the answer clears the uid's pending teardown report).
func VerifCRDV2MultiIPOn(ctx context.Context, r *CRDV2, cni *daemon.CNI) *AllocResp {
	ch, _ := r.multiIP(ctx, cni, NewLocalIPRequest())
	select {
	case resp := <-ch:
		return resp
	case <-ctx.Done():
		return nil
	}
}
func (r *CRDV2) VerifSyncNodeRuntime(ctx context.Context) error { return r.syncNodeRuntime(ctx) }
func (r *CRDV2) VerifSyncDeletedPods(ctx context.Context) error { return r.syncDeletedPods(ctx) }
func (r *CRDV2) VerifPending() []string {
	r.lock.Lock()
	defer r.lock.Unlock()
	var out []string
	for k := range r.deletedPods {
		out = append(out, k)
	}
	return out
}
