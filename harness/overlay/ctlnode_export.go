//go:build verif

package node

import (
	"context"

	corev1 "k8s.io/api/core/v1"
	"k8s.io/client-go/tools/record"
	"sigs.k8s.io/controller-runtime/pkg/client"

	networkv1beta1 "github.com/AliyunContainerService/terway/pkg/apis/network.alibabacloud.com/v1beta1"
)

// VerifK8sAnno runs the controller's node-annotation computation.
func VerifK8sAnno(ctx context.Context, c client.Client, k8sNode *corev1.Node, node *networkv1beta1.Node) error {
	r := &ReconcileNode{client: c, record: record.NewFakeRecorder(1000)}
	return r.k8sAnno(ctx, k8sNode, node)
}
