//go:build verif

package datapath

import "net"

// VerifDstIPRule exposes the classifier key built by dstIPRule.
func VerifDstIPRule(ip *net.IPNet) (off int32, val, mask uint32, err error) {
	r, err := dstIPRule(1, ip, 2, 0)
	if err != nil {
		return 0, 0, 0, err
	}
	return r.offset, r.value, r.mask, nil
}
