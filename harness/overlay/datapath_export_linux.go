//go:build verif

package datapath

import (
	"net"

	"github.com/vishvananda/netlink"

	"github.com/AliyunContainerService/terway/plugin/driver/nic"
	"github.com/AliyunContainerService/terway/plugin/driver/types"
)

// VerifDstIPRule exposes the classifier key built by dstIPRule.
func VerifDstIPRule(ip *net.IPNet) (off int32, val, mask uint32, err error) {
	r, err := dstIPRule(1, ip, 2, 0)
	if err != nil {
		return 0, 0, 0, err
	}
	return r.offset, r.value, r.mask, nil
}

// ---- C13: the declarative per-link configuration generators ---------------------------------------------

// VerifContCfg returns the container-side configuration of datapath dp (0 policy-route veth, 1 ipvlan,
// 2 exclusive ENI, 3 vlan) for cfg on a link with the given index.
func VerifContCfg(dp int, cfg *types.SetupConfig, linkIndex int, mac net.HardwareAddr) *nic.Conf {
	link := &netlink.Dummy{LinkAttrs: netlink.LinkAttrs{Index: linkIndex, Name: cfg.ContainerIfName}}
	switch dp {
	case 0:
		return generateContCfgForPolicy(cfg, link, mac)
	case 1:
		return generateContCfgForIPVlan(cfg, link)
	case 2:
		return generateContCfgForExclusiveENI(cfg, link)
	default:
		return generateContCfgForVlan(cfg, link)
	}
}

// VerifHostCfg returns the host-side configurations of the policy-route datapath: host veth peer and ENI.
func VerifHostCfg(cfg *types.SetupConfig, vethIndex, eniIndex, table int) (*nic.Conf, *nic.Conf) {
	veth := &netlink.Dummy{LinkAttrs: netlink.LinkAttrs{Index: vethIndex, Name: cfg.HostVETHName}}
	eni := &netlink.Dummy{LinkAttrs: netlink.LinkAttrs{Index: eniIndex, Name: "eni"}}
	return GenerateHostPeerCfgForPolicy(cfg, veth, table), GenerateENICfgForPolicy(cfg, eni, table)
}

const (
	VerifToContainerPriority   = toContainerPriority
	VerifFromContainerPriority = fromContainerPriority
)
