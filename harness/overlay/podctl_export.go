//go:build verif

package pod

import (
	"k8s.io/client-go/tools/record"
	"sigs.k8s.io/controller-runtime/pkg/client"

	register "github.com/AliyunContainerService/terway/pkg/controller"
	"github.com/AliyunContainerService/terway/pkg/vswitch"
)

// VerifNewReconcilePod builds the pod controller around the given collaborators.
func VerifNewReconcilePod(c client.Client, a register.Interface, sw *vswitch.SwitchPool, trunk, crd bool) *ReconcilePod {
	return &ReconcilePod{client: c, scheme: c.Scheme(), aliyun: a, swPool: sw, record: record.NewFakeRecorder(100000), trunkMode: trunk, crdMode: crd}
}
