//go:build verif

package daemon

import (
	"context"

	"github.com/AliyunContainerService/terway/pkg/aliyun/client"
	"github.com/AliyunContainerService/terway/pkg/eni"
	"github.com/AliyunContainerService/terway/pkg/k8s"
	"github.com/AliyunContainerService/terway/pkg/storage"
	"github.com/AliyunContainerService/terway/rpc"
	"github.com/AliyunContainerService/terway/types"
	"github.com/AliyunContainerService/terway/types/daemon"
)

// VerifGetPoolConfig exposes getPoolConfig.
func VerifGetPoolConfig(cfg *daemon.Config, daemonMode string, limit *client.Limits) (*daemon.PoolConfig, error) {
	return getPoolConfig(cfg, daemonMode, limit)
}

// VerifCheckInstance exposes checkInstance.
func VerifCheckInstance(limit *client.Limits, daemonMode string, config *daemon.Config) (bool, bool) {
	return checkInstance(limit, daemonMode, config)
}

// VerifDefaultForNetConf exposes defaultForNetConf.
func VerifDefaultForNetConf(netConf []*rpc.NetConf) error { return defaultForNetConf(netConf) }

// VerifNewService builds the daemon's RPC service around the given collaborators (ENI multi-IP mode).
func VerifNewService(k k8s.Kubernetes, db storage.Storage, mgr *eni.Manager, v4, v6 bool) rpc.TerwayBackendServer {
	return &networkService{daemonMode: daemon.ModeENIMultiIP, k8s: k, resourceDB: db, eniMgr: mgr, enableIPv4: v4, enableIPv6: v6, ipamType: types.IPAMTypeDefault}
}

// VerifGC runs one garbage-collection pass of the service.
func VerifGC(ctx context.Context, s rpc.TerwayBackendServer) error {
	return s.(*networkService).gcPods(ctx)
}

// VerifFilterENINotFound exposes the start-up filter of stored allocations.
func VerifFilterENINotFound(podResources []daemon.PodResources, attached map[string]*daemon.ENI) []daemon.PodResources {
	return filterENINotFound(podResources, attached)
}

// VerifGetPodResources converts the store's listing.
func VerifGetPodResources(list []interface{}) []daemon.PodResources { return getPodResources(list) }
