//go:build verif

package daemon

import (
	"github.com/AliyunContainerService/terway/pkg/aliyun/client"
	"github.com/AliyunContainerService/terway/rpc"
	"github.com/AliyunContainerService/terway/types/daemon"
)

// VerifGetPoolConfig exposes getPoolConfig.
func VerifGetPoolConfig(cfg *daemon.Config, daemonMode string, limit *client.Limits) (*daemon.PoolConfig, error) {
	return getPoolConfig(cfg, daemonMode, limit)
}

// VerifCheckInstance exposes checkInstance.
func VerifCheckInstance(limit *client.Limits, daemonMode string, config *daemon.Config) (bool, bool) {
	return checkInstance(limit, daemonMode, config)
}

// VerifDefaultForNetConf exposes defaultForNetConf.
func VerifDefaultForNetConf(netConf []*rpc.NetConf) error { return defaultForNetConf(netConf) }
