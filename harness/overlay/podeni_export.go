//go:build verif

package podeni

func VerifPodNumaHints(anno map[string]string) []int { return podNumaHints(anno) }
