//go:build verif

package podeni

import (
	"context"

	"k8s.io/client-go/tools/record"
	"sigs.k8s.io/controller-runtime/pkg/client"

	register "github.com/AliyunContainerService/terway/pkg/controller"
	"github.com/AliyunContainerService/terway/pkg/controller/status"
)

func VerifPodNumaHints(anno map[string]string) []int { return podNumaHints(anno) }

// VerifNewReconcilePodENI builds the PodENI controller around the given collaborators.
func VerifNewReconcilePodENI(c client.Client, a register.Interface, trunk, crd bool) *ReconcilePodENI {
	return &ReconcilePodENI{client: c, scheme: c.Scheme(), aliyun: a, record: record.NewFakeRecorder(100000), trunkMode: trunk, crdMode: crd,
		nodeStatusCache: status.NewCache[status.NodeStatus]()}
}

// VerifGCRecords runs one pass of the record collector (fixed-IP TTL, leaked records).
func (m *ReconcilePodENI) VerifGCRecords(ctx context.Context) { m.gcCRPodENIs(ctx) }

// VerifGCInterfaces runs one pass of the leaked-interface collector.
func (m *ReconcilePodENI) VerifGCInterfaces(ctx context.Context) {
	m.gcSecondaryENI(ctx)
	m.gcMemberENI(ctx)
}
