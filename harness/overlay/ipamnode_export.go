//go:build verif

package node

import (
	"context"
	"sync"
	"time"

	"github.com/go-logr/logr"
	"go.opentelemetry.io/otel/trace/noop"
	"k8s.io/client-go/tools/record"
	"sigs.k8s.io/controller-runtime/pkg/client"

	networkv1beta1 "github.com/AliyunContainerService/terway/pkg/apis/network.alibabacloud.com/v1beta1"
	register "github.com/AliyunContainerService/terway/pkg/controller"
	"github.com/AliyunContainerService/terway/pkg/vswitch"
)

// VerifNewReconcileNode builds the cluster IPAM reconciler around the given collaborators.
func VerifNewReconcileNode(c client.Client, a register.Interface, vsw *vswitch.SwitchPool, fullSync, gcPeriod time.Duration) *ReconcileNode {
	return &ReconcileNode{client: c, scheme: c.Scheme(), record: record.NewFakeRecorder(100000), aliyun: a, vswpool: vsw,
		fullSyncNodePeriod: fullSync, gcPeriod: gcPeriod, tracer: noop.NewTracerProvider().Tracer(""), eniBatchSize: 5}
}

// VerifResetCache forgets the controller's per-node memory (a controller restart).
func (n *ReconcileNode) VerifResetCache() { n.cache = sync.Map{} }

// VerifOption is one slot of the plan computed by getEniOptions + assignEniWithOptions.
type VerifOption struct {
	Trunk, RDMA bool
	ENI         string // "" for an interface to be created
	Add4, Add6  int
	Full        bool
}

// VerifPlan runs the planning arithmetic: slots from the flavor, then the demand split (normal, then rdma).
func (n *ReconcileNode) VerifPlan(ctx context.Context, node *networkv1beta1.Node, normal, rdma int) []VerifOption {
	options := getEniOptions(node)
	assignEniWithOptions(ctx, node, normal, options, func(o *eniOptions) bool {
		return n.validateENI(ctx, o, []eniTypeKey{secondaryKey, trunkKey})
	})
	assignEniWithOptions(ctx, node, rdma, options, func(o *eniOptions) bool {
		return n.validateENI(ctx, o, []eniTypeKey{rdmaKey})
	})
	var out []VerifOption
	for _, o := range options {
		v := VerifOption{Trunk: o.eniTypeKey == trunkKey, RDMA: o.eniTypeKey == rdmaKey, Add4: o.addIPv4N, Add6: o.addIPv6N, Full: o.isFull}
		if o.eniRef != nil {
			v.ENI = o.eniRef.ID
		}
		out = append(out, v)
	}
	return out
}

// VerifReleaseUnused exposes releaseUnUsedIP.
func VerifReleaseUnused(eni *networkv1beta1.NetworkInterface, toDel int) int {
	return releaseUnUsedIP(logr.Discard(), eni, toDel)
}

// VerifPod is a pod as the binding passes see it.
type VerifPod struct {
	ID, UID            string
	Need4, Need6, RDMA bool
	IPv4, IPv6         string
}

// VerifBind runs one binding pass over the record: index, release of vanished pods (gated on the
// NodeRuntime object read through c), take-over and pick loops. It returns the pods left unsatisfied.
func VerifBind(ctx context.Context, c client.Client, node *networkv1beta1.Node, pods []VerifPod) []string {
	m := map[string]*PodRequest{}
	for _, p := range pods {
		m[p.ID] = &PodRequest{PodUID: p.UID, RequireIPv4: p.Need4, RequireIPv6: p.Need6, RequireERDMA: p.RDMA, IPv4: p.IPv4, IPv6: p.IPv6}
	}
	v4, v6 := buildIPMap(m, node.Status.NetworkInterfaces)
	releasePodNotFound(ctx, c, node.Name, m, v4, v6)
	un := assignIPFromLocalPool(logr.Discard(), m, v4, v6, node.Spec.ENISpec.EnableERDMA)
	var out []string
	for k := range un {
		out = append(out, k)
	}
	return out
}
