//go:build verif

package storage

import (
	"time"

	"github.com/boltdb/bolt"
)

var verifPath = map[*DiskStorage]string{}

// VerifFailWrites makes every write transaction of the disk storage fail before it has any effect (the database handle
// is closed) until it is switched off again (the handle is opened again on the same file).
func VerifFailWrites(s Storage, on bool) error {
	d, ok := s.(*DiskStorage)
	if !ok {
		return nil
	}
	if on {
		verifPath[d] = d.db.Path()
		return d.db.Close()
	}
	db, err := bolt.Open(verifPath[d], 0600, &bolt.Options{Timeout: 5 * time.Second})
	if err != nil {
		return err
	}
	d.db = db
	return nil
}
