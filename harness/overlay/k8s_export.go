//go:build verif

package k8s

import (
	corev1 "k8s.io/api/core/v1"
	"k8s.io/apimachinery/pkg/util/sets"

	"github.com/AliyunContainerService/terway/types/daemon"
)

func VerifParseBandwidth(s string) (uint64, error) { return parseBandwidth(s) }

func VerifConvertPod(daemonMode string, enableErdma bool, kinds sets.Set[string], pod *corev1.Pod) *daemon.PodInfo {
	return convertPod(daemonMode, enableErdma, kinds, pod)
}

func VerifDeserialize(data []byte) (interface{}, error) { return deserialize(data) }
