//go:build verif

package k8s

import (
	corev1 "k8s.io/api/core/v1"
	"k8s.io/apimachinery/pkg/util/sets"
	"sigs.k8s.io/controller-runtime/pkg/client"

	"github.com/AliyunContainerService/terway/types/daemon"
)

func VerifParseBandwidth(s string) (uint64, error) { return parseBandwidth(s) }

func VerifConvertPod(daemonMode string, enableErdma bool, kinds sets.Set[string], pod *corev1.Pod) *daemon.PodInfo {
	return convertPod(daemonMode, enableErdma, kinds, pod)
}

func VerifDeserialize(data []byte) (interface{}, error) { return deserialize(data) }

// VerifPodExist asks the daemon's PodExist (the question the node GC asks before it collects a record) against a client.
func VerifPodExist(c client.Client, nodeName, namespace, name string) (bool, error) {
	return (&k8s{client: c, nodeName: nodeName}).PodExist(namespace, name)
}
