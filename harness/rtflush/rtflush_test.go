// Package rtflush drives the node agent's reporting of sandbox teardowns to the control plane (pkg/eni/crdv2.go:
// Release, the answer of multiIP, syncNodeRuntime, syncDeletedPods) against controller-runtime's fake API server.
package rtflush

import (
	"context"
	"fmt"
	"math/big"
	"sort"
	"testing"
	"testing/synctest"
	"time"

	corev1 "k8s.io/api/core/v1"
	metav1 "k8s.io/apimachinery/pkg/apis/meta/v1"
	"sigs.k8s.io/controller-runtime/pkg/client"
	"sigs.k8s.io/controller-runtime/pkg/client/fake"
	"sigs.k8s.io/controller-runtime/pkg/client/interceptor"

	"verifharness/hx"

	networkv1beta1 "github.com/AliyunContainerService/terway/pkg/apis/network.alibabacloud.com/v1beta1"
	"github.com/AliyunContainerService/terway/pkg/eni"
	"github.com/AliyunContainerService/terway/types"
	"github.com/AliyunContainerService/terway/types/daemon"
)

// operations (input: 8 nops (op args..)*; the leading 8 marks the cases of this harness for C03's dispatcher)
const (
	opRelease  = 1 // u        : a DEL for uid u reaches CRDV2.Release
	opAnswer   = 2 // u        : an ADD for uid u is answered (with the address the record binds to it, or with an error after the time limit)
	opFlush    = 3 // get save : syncNodeRuntime; 0 = that API call fails
	opSync     = 4 // get save : syncDeletedPods
	opBind     = 5 // u        : the cluster IPAM binds an address to uid u
	opForget   = 6 // u        : the cluster IPAM releases it
	opDeleting = 7 //          : the NodeRuntime object gets a deletion timestamp (it carries a finalizer)
	opGone     = 8 //          : the NodeRuntime object is removed
	opIfStatus = 9 // k        : the Node record shows the interface as 0 InUse, 1 Detaching, 2 Deleting, 3 Attaching (a transient cloud status copied by the controller)
)

func uidStr(u int) string { return fmt.Sprintf("uid-%d", u) }
func podID(u int) string  { return fmt.Sprintf("ns/p%d", u) }

func eval(t *testing.T) func(in []*big.Int) []*big.Int {
	return func(in []*big.Int) []*big.Int {
		d := hx.NewD(in)
		if d.Int() != 8 {
			return nil
		}
		n := d.Int()
		var ops [][3]int
		for i := 0; i < n; i++ {
			k := d.Int()
			var o [3]int
			o[0] = k
			switch k {
			case opRelease, opAnswer, opBind, opForget, opIfStatus:
				o[1] = d.Int()
			case opFlush, opSync:
				o[1], o[2] = d.Int(), d.Int()
			}
			ops = append(ops, o)
		}
		if d.Bad {
			return nil
		}
		var out hx.B
		t.Run("case", func(t *testing.T) {
			synctest.Test(t, func(t *testing.T) {
				failGet, failSave := false, false
				node := &networkv1beta1.Node{ObjectMeta: metav1.ObjectMeta{Name: "node-1"}}
				node.Spec.ENISpec = &networkv1beta1.ENISpec{EnableIPv4: true}
				ni := &networkv1beta1.NetworkInterface{ID: "eni-1", Status: "InUse", MacAddress: "02:00:00:00:00:01", VSwitchID: "vsw-1", IPv4CIDR: "10.0.0.0/16",
					NetworkInterfaceType: networkv1beta1.ENITypeSecondary, NetworkInterfaceTrafficMode: networkv1beta1.NetworkInterfaceTrafficModeStandard,
					IPv4: map[string]*networkv1beta1.IP{}}
				for u := 1; u <= 6; u++ {
					a := fmt.Sprintf("10.0.0.%d", 10+u)
					ni.IPv4[a] = &networkv1beta1.IP{IP: a, Status: networkv1beta1.IPStatusValid}
				}
				node.Status.NetworkInterfaces = map[string]*networkv1beta1.NetworkInterface{"eni-1": ni}
				cl := fake.NewClientBuilder().WithScheme(types.Scheme).
					WithObjects(node, &corev1.Node{ObjectMeta: metav1.ObjectMeta{Name: "node-1", UID: "node-uid"}}).
					WithStatusSubresource(&networkv1beta1.Node{}, &networkv1beta1.NodeRuntime{}).
					WithInterceptorFuncs(interceptor.Funcs{
						Get: func(ctx context.Context, c client.WithWatch, key client.ObjectKey, obj client.Object, opts ...client.GetOption) error {
							if _, ok := obj.(*networkv1beta1.NodeRuntime); ok && failGet {
								failGet = false
								return fmt.Errorf("injected: get failed")
							}
							return c.Get(ctx, key, obj, opts...)
						},
						Create: func(ctx context.Context, c client.WithWatch, obj client.Object, opts ...client.CreateOption) error {
							if nr, ok := obj.(*networkv1beta1.NodeRuntime); ok {
								if failSave {
									return fmt.Errorf("injected: create failed")
								}
								// the CRD has a status subresource: the API server ignores .status in a create (and in an update of the main
								// resource); controller-runtime's fake client v0.20 keeps it, so the harness drops it here
								nr.Status = networkv1beta1.NodeRuntimeStatus{}
							}
							return c.Create(ctx, obj, opts...)
						},
						Patch: func(ctx context.Context, c client.WithWatch, obj client.Object, patch client.Patch, opts ...client.PatchOption) error {
							if _, ok := obj.(*networkv1beta1.NodeRuntime); ok && failSave {
								return fmt.Errorf("injected: patch failed")
							}
							return c.Patch(ctx, obj, patch, opts...)
						},
						SubResourcePatch: func(ctx context.Context, c client.Client, sub string, obj client.Object, patch client.Patch, opts ...client.SubResourcePatchOption) error {
							if _, ok := obj.(*networkv1beta1.NodeRuntime); ok && failSave {
								return fmt.Errorf("injected: status patch failed")
							}
							return c.SubResource(sub).Patch(ctx, obj, patch, opts...)
						},
						SubResourceUpdate: func(ctx context.Context, c client.Client, sub string, obj client.Object, opts ...client.SubResourceUpdateOption) error {
							if _, ok := obj.(*networkv1beta1.NodeRuntime); ok && failSave {
								return fmt.Errorf("injected: status update failed")
							}
							return c.SubResource(sub).Update(ctx, obj, opts...)
						},
					}).Build()
				ctx := context.Background()
				cur := &networkv1beta1.Node{}
				_ = cl.Get(ctx, client.ObjectKey{Name: "node-1"}, cur)
				cur.Status = node.Status
				_ = cl.Status().Update(ctx, cur)
				r := eni.VerifNewCRDV2(cl, "node-1")
				setUID := func(u int, uid string) {
					cur := &networkv1beta1.Node{}
					_ = cl.Get(ctx, client.ObjectKey{Name: "node-1"}, cur)
					ip := cur.Status.NetworkInterfaces["eni-1"].IPv4[fmt.Sprintf("10.0.0.%d", 10+u)]
					ip.PodUID = uid
					if uid != "" {
						ip.PodID = podID(u)
					} else {
						ip.PodID = ""
					}
					_ = cl.Status().Update(ctx, cur)
				}
				for _, o := range ops {
					time.Sleep(2 * time.Second) // report times have a resolution of one second
					switch o[0] {
					case opRelease:
						_, _ = r.Release(ctx, &daemon.CNI{PodName: fmt.Sprintf("p%d", o[1]), PodNamespace: "ns", PodID: podID(o[1]), PodUID: uidStr(o[1])}, &eni.LocalIPResource{})
					case opAnswer:
						actx, cancel := context.WithTimeout(ctx, 10*time.Minute)
						_ = eni.VerifCRDV2MultiIPOn(actx, r, &daemon.CNI{PodName: fmt.Sprintf("p%d", o[1]), PodNamespace: "ns", PodID: podID(o[1]), PodUID: uidStr(o[1])})
						cancel()
						synctest.Wait()
					case opFlush:
						failGet, failSave = o[1] == 0, o[2] == 0
						_ = r.VerifSyncNodeRuntime(ctx)
						failGet, failSave = false, false
					case opSync:
						failGet, failSave = o[1] == 0, o[2] == 0
						_ = r.VerifSyncDeletedPods(ctx)
						failGet, failSave = false, false
					case opBind:
						setUID(o[1], uidStr(o[1]))
					case opForget:
						setUID(o[1], "")
					case opIfStatus:
						cur := &networkv1beta1.Node{}
						_ = cl.Get(ctx, client.ObjectKey{Name: "node-1"}, cur)
						cur.Status.NetworkInterfaces["eni-1"].Status = []string{"InUse", "Detaching", "Deleting", "Attaching"}[o[1]&3]
						_ = cl.Status().Update(ctx, cur)
					case opDeleting:
						rtObj := &networkv1beta1.NodeRuntime{}
						if err := cl.Get(ctx, client.ObjectKey{Name: "node-1"}, rtObj); err == nil && rtObj.DeletionTimestamp.IsZero() {
							rtObj.Finalizers = []string{"verif/hold"}
							_ = cl.Update(ctx, rtObj)
							_ = cl.Delete(ctx, rtObj)
						}
					case opGone:
						rtObj := &networkv1beta1.NodeRuntime{}
						if err := cl.Get(ctx, client.ObjectKey{Name: "node-1"}, rtObj); err == nil {
							if len(rtObj.Finalizers) > 0 {
								rtObj.Finalizers = nil
								_ = cl.Update(ctx, rtObj)
							}
							_ = cl.Delete(ctx, rtObj)
						}
					}
					// observation: pending uids; the object: 0 absent / 1 present / 2 being deleted; its entries (uid initial deleted)
					var pend []int
					for _, s := range r.VerifPending() {
						var u int
						fmt.Sscanf(s, "uid-%d", &u)
						pend = append(pend, u)
					}
					sort.Ints(pend)
					out.Ints(pend)
					rtObj := &networkv1beta1.NodeRuntime{}
					if err := cl.Get(ctx, client.ObjectKey{Name: "node-1"}, rtObj); err != nil {
						out.I(0, 0)
						continue
					}
					if rtObj.DeletionTimestamp.IsZero() {
						out.I(1)
					} else {
						out.I(2)
					}
					var us []int
					for k := range rtObj.Status.Pods {
						var u int
						fmt.Sscanf(k, "uid-%d", &u)
						us = append(us, u)
					}
					sort.Ints(us)
					out.I(len(us))
					for _, u := range us {
						p := rtObj.Status.Pods[uidStr(u)]
						_, ini := p.Status[networkv1beta1.CNIStatusInitial]
						_, del := p.Status[networkv1beta1.CNIStatusDeleted]
						out.I(u).Bool(ini).Bool(del)
					}
				}
			})
		})
		return out.L
	}
}

func gen(r *hx.Rand) [][]*big.Int {
	n := hx.N(300)
	var cs [][]*big.Int
	for c := 0; c < n; c++ {
		var b hx.B
		k := 6 + r.Intn(25)
		b.I(8, k)
		faults := r.Chance(1, 3)
		for i := 0; i < k; i++ {
			u := 1 + r.Intn(4)
			ok := func() int {
				if faults && r.Chance(1, 5) {
					return 0
				}
				return 1
			}
			switch x := r.Intn(100); {
			case x < 22:
				b.I(opRelease, u)
			case x < 30:
				b.I(opAnswer, u)
			case x < 55:
				b.I(opFlush, ok(), ok())
			case x < 68:
				b.I(opSync, ok(), ok())
			case x < 82:
				b.I(opBind, u)
			case x < 92:
				b.I(opForget, u)
			case x < 95:
				b.I(opDeleting)
			case x < 98:
				b.I(opIfStatus, r.Intn(4))
			default:
				b.I(opGone)
			}
		}
		cs = append(cs, b.L)
	}
	return cs
}

func TestVerif_RtFlush(t *testing.T) { hx.Run(t, gen, eval(t)) }
