package c14

import (
	"fmt"
	"math/big"
	"net"
	"testing"

	"verifharness/hx"

	terwayip "github.com/AliyunContainerService/terway/pkg/ip"
	"github.com/AliyunContainerService/terway/pkg/link"
	"github.com/AliyunContainerService/terway/pkg/tc"
	"github.com/AliyunContainerService/terway/plugin/datapath"
	"github.com/AliyunContainerService/terway/plugin/driver/utils"
)

func ipBytes(v *big.Int, n int) net.IP {
	b := make([]byte, n)
	v.FillBytes(b)
	return net.IP(b)
}

func eval(in []*big.Int) []*big.Int {
	d := hx.NewD(in)
	var o hx.B
	switch d.Int() {
	case 1: // tc.U32IPv4Src
		ip, plen := d.Big(), d.Int()
		ipn := &net.IPNet{IP: ipBytes(ip, 4), Mask: net.CIDRMask(plen, 32)}
		if ip.Bit(0) == 1 { // exercise the 16-byte representation of an IPv4 address too
			ipn.IP = ipn.IP.To16()
		}
		ks := tc.U32MatchSrc(ipn)
		if len(ks) != 1 {
			return o.I(-1, len(ks)).L
		}
		o.I(int(ks[0].Off)).U64(uint64(ks[0].Val)).U64(uint64(ks[0].Mask))
	case 2: // ipvlan dstIPRule
		ip, plen := d.Big(), d.Int()
		ipn := &net.IPNet{IP: ipBytes(ip, 4), Mask: net.CIDRMask(plen, 32)}
		off, val, mask, err := datapath.VerifDstIPRule(ipn)
		if err != nil {
			return o.I(-2).L
		}
		o.I(int(off)).U64(uint64(val)).U64(uint64(mask))
	case 3: // tc.U32IPv6Src via U32MatchSrc
		ip, plen := d.Big(), d.Int()
		ipn := &net.IPNet{IP: ipBytes(ip, 16), Mask: net.CIDRMask(plen, 128)}
		ks := tc.U32MatchSrc(ipn)
		o.I(len(ks))
		for _, k := range ks {
			o.I(int(k.Off)).U64(uint64(k.Val)).U64(uint64(k.Mask))
		}
	case 4: // ip.DeriveGatewayIP
		w, netv, plen := d.Int(), d.Big(), d.Int()
		cidr := fmt.Sprintf("%s/%d", ipBytes(netv, w/8).String(), plen)
		if w == 128 {
			// eight hex groups: net.IP.String would print an address in ::ffff:0:0/96 in IPv4 notation
			b := ipBytes(netv, 16)
			cidr = fmt.Sprintf("%x:%x:%x:%x:%x:%x:%x:%x/%d", uint16(b[0])<<8|uint16(b[1]), uint16(b[2])<<8|uint16(b[3]), uint16(b[4])<<8|uint16(b[5]),
				uint16(b[6])<<8|uint16(b[7]), uint16(b[8])<<8|uint16(b[9]), uint16(b[10])<<8|uint16(b[11]), uint16(b[12])<<8|uint16(b[13]), uint16(b[14])<<8|uint16(b[15]), plen)
		}
		gw := terwayip.DeriveGatewayIP(cidr)
		if gw == "" {
			return o.I(0).L
		}
		p := net.ParseIP(gw)
		if p == nil {
			return o.I(-3).L
		}
		if w == 32 {
			p4 := p.To4()
			if p4 == nil {
				return o.I(-4).L
			}
			o.I(1).Big(new(big.Int).SetBytes(p4))
		} else {
			o.I(1).Big(new(big.Int).SetBytes(p.To16()))
		}
	case 5:
		idx := d.Int()
		o.I(utils.GetRouteTableID(idx))
	case 6:
		pfx, ns, name, if1, if2 := d.Str(), d.Str(), d.Str(), d.Str(), d.Str()
		n1, err1 := link.VethNameForPod(name, ns, if1, pfx)
		n2, err2 := link.VethNameForPod(name, ns, if2, pfx)
		if err1 != nil || err2 != nil {
			return o.I(-5).L
		}
		o.Str(n1).Str(n2)
	default:
		return nil
	}
	if d.Bad {
		return nil
	}
	return o.L
}

// boundary-biased address: random, or with leading / trailing zero or one bytes
func addr(r *hx.Rand, bits int) *big.Int {
	v := r.Big(bits)
	one := big.NewInt(1)
	switch r.Intn(8) {
	case 0: // leading zero bytes
		k := uint(8 * r.Range(1, bits/8))
		v.Rsh(v, k)
	case 1: // trailing zero bytes
		k := uint(8 * r.Range(1, bits/8-1))
		v.Rsh(v, k).Lsh(v, k)
	case 2: // all ones in the low part
		k := uint(r.Range(1, bits))
		m := new(big.Int).Sub(new(big.Int).Lsh(one, k), one)
		v.Or(v, m)
	case 3:
		v.SetInt64(0)
	case 4:
		v.Sub(new(big.Int).Lsh(one, uint(bits)), one)
	}
	return v
}

func probes(r *hx.Rand, bits int, ip *big.Int, plen int, b *hx.B) {
	one := big.NewInt(1)
	var ps []*big.Int
	hostBits := uint(bits - plen)
	base := new(big.Int).Rsh(ip, hostBits)
	base.Lsh(base, hostBits)
	for i := 0; i < 3; i++ { // inside the CIDR
		p := new(big.Int).Or(base, r.Big(bits-plen))
		ps = append(ps, p)
	}
	if plen > 0 { // near misses: flip the last prefix bit, the first one, a random one
		for _, bit := range []int{plen - 1, 0, r.Intn(plen)} {
			p := new(big.Int).Or(base, r.Big(bits-plen))
			p.Xor(p, new(big.Int).Lsh(one, uint(bits-1-bit)))
			ps = append(ps, p)
		}
	}
	ps = append(ps, r.Big(bits), new(big.Int), new(big.Int).Sub(new(big.Int).Lsh(one, uint(bits)), one))
	b.I(len(ps))
	for _, p := range ps {
		b.Big(p)
	}
}

var names = []string{"", "eth0", "eth1", "eth2", "net1", "e", "eth00", "eth0 ", "ETH0"}

func str(r *hx.Rand, max int) string {
	n := r.Intn(max + 1)
	bs := make([]byte, n)
	for i := range bs {
		if r.Chance(1, 10) {
			bs[i] = byte(r.Intn(256))
		} else {
			bs[i] = "abcdefghijklmnopqrstuvwxyz0123456789-."[r.Intn(38)]
		}
	}
	return string(bs)
}

func gen(r *hx.Rand) [][]*big.Int {
	var cs [][]*big.Int
	n := hx.N(6)
	rk, rg, rt, rv := r.Fork(), r.Fork(), r.Fork(), r.Fork()
	// classifier keys: every prefix length x n addresses
	for plen := 0; plen <= 32; plen++ {
		for j := 0; j < n; j++ {
			for _, fn := range []int{1, 2} {
				var b hx.B
				ip := addr(rk, 32)
				b.I(fn).Big(ip).I(plen)
				probes(rk, 32, ip, plen, &b)
				cs = append(cs, b.L)
			}
		}
	}
	for plen := 0; plen <= 128; plen++ {
		for j := 0; j < (n+1)/2; j++ {
			var b hx.B
			ip := addr(rk, 128)
			b.I(3).Big(ip).I(plen)
			probes(rk, 128, ip, plen, &b)
			cs = append(cs, b.L)
		}
	}
	// gateways: every prefix length x n subnets
	for plen := 0; plen <= 32; plen++ {
		for j := 0; j < 2*n; j++ {
			var b hx.B
			cs = append(cs, b.I(4, 32).Big(addr(rg, 32)).I(plen).L)
		}
	}
	for plen := 0; plen <= 128; plen++ {
		for j := 0; j < n; j++ {
			v := addr(rg, 128)
			// IPv4-mapped IPv6 subnets (::ffff:0:0/96) are outside the modelled domain
			if new(big.Int).Rsh(v, 32).Cmp(big.NewInt(0xffff)) == 0 {
				continue
			}
			var b hx.B
			cs = append(cs, b.I(4, 128).Big(v).I(plen).L)
		}
	}
	// nested subnets sharing one base address, queried in sequence (guards against
	// results remembered under too coarse a key)
	for j := 0; j < 4*n; j++ {
		w := 32
		if rg.Bool() {
			w = 128
		}
		p0 := rg.Range(0, w-2)
		base := rg.Big(w)
		base.Rsh(base, uint(w-p0)).Lsh(base, uint(w-p0))
		if w == 128 && new(big.Int).Rsh(base, 32).Cmp(big.NewInt(0xffff)) == 0 {
			continue
		}
		for k := 0; k < 4; k++ {
			var b hx.B
			cs = append(cs, b.I(4, w).Big(base).I(rg.Range(p0, w)).L)
		}
	}
	// route tables: every interface index a node can plausibly reach, then sampled large ones
	for idx := 0; idx <= 4096; idx++ {
		var b hx.B
		cs = append(cs, b.I(5, idx).L)
	}
	for j := 0; j < 20*n; j++ {
		var b hx.B
		idx := rt.Intn(1 << uint(rt.Range(1, 31)))
		cs = append(cs, b.I(5, idx).L)
	}
	// interface names
	for j := 0; j < 60*n; j++ {
		var b hx.B
		pfx := "cali"
		if rv.Chance(1, 5) {
			pfx = str(rv, 4)
		}
		if1, if2 := names[rv.Intn(len(names))], names[rv.Intn(len(names))]
		if rv.Chance(1, 4) {
			if1 = str(rv, 6)
		}
		b.I(6).Str(pfx).Str(str(rv, 20)).Str(str(rv, 40)).Str(if1).Str(if2)
		cs = append(cs, b.L)
	}
	return cs
}

func TestVerif_C14(t *testing.T) { hx.Run(t, gen, eval) }
