package pool

import (
	"math/big"
	"os"
	"testing"
	"testing/synctest"

	"verifharness/hx"
)

// input: ns types.. preload.. on4 on6 cap batch min max tot policy nrec (len rec..)*
// only stimulus records (kind < 10) are executed; the annotated input written back carries,
// block by block, everything that was observed.

func eval(t *testing.T) func(in []*big.Int) ([]*big.Int, []*big.Int) {
	return func(in []*big.Int) ([]*big.Int, []*big.Int) {
		c, recs, ok := Decode(in)
		if !ok {
			return in, nil
		}
		var w *World
		t.Run("case", func(t *testing.T) {
			synctest.Test(t, func(t *testing.T) {
				w = NewWorld(c)
				if err := w.Start(nil); err != nil {
					t.Fatalf("start: %v", err)
				}
				for _, r := range recs {
					if len(r) == 0 || r[0] >= 10 {
						continue
					}
					switch r[0] {
					case RAlloc:
						w.Alloc(r[1], r[2], r[3], r[4] != 0)
					case RCancel:
						w.Cancel(r[1])
					case RRelease:
						w.Release(r[1])
					case RComplete:
						w.Complete(r[1], r[2])
					case RAdvance:
						w.Advance(r[1])
					case RSyncPool:
						w.SyncPool()
					case RRemoteRemove:
						w.RemoteRemove(r[1], r[2], r[3])
					case RMetaSync:
						w.MetaSync(r[1], len(r) > 2 && r[2] != 0)
					case RRaceDispose:
						w.RaceDispose(r[1], r[2])
					}
				}
				w.Stop()
			})
		})
		var o hx.B
		o.I(w.Out...)
		return Encode(c, w.In), o.L
	}
}

// ---- generator ----------------------------------------------------------------------------------

type profile struct {
	faults, remote, balance, cancel int // weights (per 100)
	dual                            bool
}

func profileFor(prop string) profile {
	switch prop {
	case "C06":
		return profile{faults: 12, remote: 0, balance: 18, cancel: 6}
	case "C07":
		return profile{faults: 35, remote: 6, balance: 14, cancel: 8}
	default: // C01
		return profile{faults: 20, remote: 10, balance: 8, cancel: 8, dual: true}
	}
}

func genCase(r *hx.Rand, p profile) []*big.Int {
	var c Config
	ns := 1 + r.Intn(3)
	for i := 0; i < ns; i++ {
		ty := 0
		if r.Chance(1, 8) {
			ty = 1
		}
		c.Types = append(c.Types, ty)
		pre := 0
		if r.Chance(1, 3) {
			pre = 1 + r.Intn(3)
		}
		c.Preload = append(c.Preload, pre)
	}
	switch r.Intn(4) {
	case 0:
		c.On4, c.On6 = true, true
	case 1:
		c.On4, c.On6 = false, true
	default:
		c.On4, c.On6 = true, false
	}
	if p.dual && r.Chance(1, 3) {
		c.On4, c.On6 = true, true // more dual-stack pools: waiters that hold one family and wait for the other
	}
	c.Cap = 1 + r.Intn(5)
	c.Batch = 1 + r.Intn(3)
	if c.Batch > c.Cap {
		c.Batch = c.Cap
	}
	for i := range c.Preload {
		if c.Preload[i] > c.Cap {
			c.Preload[i] = c.Cap
		}
	}
	c.MinIdle = r.Intn(3)
	c.MaxIdle = r.Intn(4)
	if r.Chance(3, 4) && c.MaxIdle < c.MinIdle {
		c.MaxIdle = c.MinIdle
	}
	c.Tot = ns * c.Cap
	c.Policy = r.Intn(2)
	npods := 1 + r.Intn(6)
	n := 8 + r.Intn(40)
	var recs [][]int
	rid := 0
	open := []int{}        // rids possibly still in flight
	busy := map[int]bool{} // pods with a request that may be unfinished
	holds := map[int]bool{}
	outcome := func() int {
		if r.Intn(100) < p.faults {
			return 1 + r.Intn(5)
		}
		return OOk
	}
	if p.dual && r.Chance(1, 3) {
		// dual-stack waiters: several requests wait on one interface while its two families are filled by separate calls,
		// one of them only partly (each waiter has looked at the same idle IPv4 address before it parked)
		c.On4, c.On6 = true, true
		c.Cap = 3 + r.Intn(3)
		c.Batch = 2 + r.Intn(2)
		c.Types[0], c.Preload[0] = 0, 1
		c.Tot = ns * c.Cap
		if npods < 3 {
			npods = 3
		}
		for pod := 1; pod <= 3; pod++ {
			rid++
			recs = append(recs, []int{RAlloc, rid, pod, -1, 0})
			open = append(open, rid)
			busy[pod], holds[pod] = true, true
		}
		recs = append(recs, []int{RAdvance, 300}, []int{RComplete, 1, OOk}, []int{RComplete, 1, []int{OPartial, OOk, OErrAfter}[r.Intn(3)]},
			[]int{RAdvance, 300}, []int{RComplete, 1, OOk}, []int{RComplete, 1, OOk})
	}
	for i := 0; i < n; i++ {
		x := r.Intn(100)
		switch {
		case x < 25:
			pod := 1 + r.Intn(npods)
			if busy[pod] {
				continue
			}
			rid++
			if r.Chance(1, 8) {
				// a balancer pass hits an interface at the very moment it serves this request
				recs = append(recs, []int{RRaceDispose, 1 + r.Intn(ns), 1 + r.Intn(3)})
			}
			pre := r.Intn(100) < p.cancel/2
			recs = append(recs, []int{RAlloc, rid, pod, -1, b2i(pre)})
			open = append(open, rid)
			busy[pod] = true
			holds[pod] = true
		case x < 25+p.cancel:
			if len(open) > 0 {
				recs = append(recs, []int{RCancel, open[r.Intn(len(open))]})
			}
		case x < 38+p.cancel:
			pod := 1 + r.Intn(npods)
			if holds[pod] {
				recs = append(recs, []int{RRelease, pod, 0, 0, 0})
				delete(busy, pod)
			}
		case x < 59+p.cancel:
			if r.Chance(1, 8) {
				// the cloud carries out an assign call and its metadata is read before the answer comes back
				sl := 1 + r.Intn(ns)
				recs = append(recs, []int{RComplete, sl, OEarly}, []int{RMetaSync, sl})
				if r.Chance(1, 2) {
					recs = append(recs, []int{RComplete, sl, outcome()})
				}
				continue
			}
			if r.Chance(1, 6) {
				// the call's answer arrives while a metadata read of the same interface is under way
				recs = append(recs, []int{RMetaSync, 1 + r.Intn(ns), 1})
				continue
			}
			recs = append(recs, []int{RComplete, 1 + r.Intn(ns), outcome()})
			for k := range busy { // a completed call may finish requests; be conservative only for releases
				_ = k
			}
		case x < 67+p.cancel:
			recs = append(recs, []int{RAdvance, []int{100, 300, 300, 1000, 61000, 130000, 601000}[r.Intn(7)]})
		case x < 67+p.cancel+p.balance:
			recs = append(recs, []int{RSyncPool})
		case x < 67+p.cancel+p.balance+p.remote:
			recs = append(recs, []int{RRemoteRemove, 1 + r.Intn(ns), []int{4, 6}[r.Intn(2)], r.Intn(8), 0})
		default:
			if r.Chance(1, 3) {
				// the metadata read overlaps the answer of the slot's outstanding call
				recs = append(recs, []int{RMetaSync, 1 + r.Intn(ns), 1})
				continue
			}
			recs = append(recs, []int{RMetaSync, 1 + r.Intn(ns)})
		}
		if r.Chance(1, 6) { // let requests finish so that pods become free again
			for k := range busy {
				delete(busy, k)
			}
		}
	}
	return Encode(c, recs)
}

func gen(r *hx.Rand) [][]*big.Int {
	n := hx.N(200)
	p := profileFor(os.Getenv("VERIF_PROP"))
	var out [][]*big.Int
	for i := 0; i < n; i++ {
		out = append(out, genCase(r.Fork(), p))
	}
	return out
}

func TestVerif_Pool(t *testing.T) { hx.Run2(t, gen, eval(t)) }
