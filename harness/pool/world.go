// Package pool: the node-local pool (pkg/eni Local + Manager) driven inside a
// testing/synctest bubble against a simulated cloud whose calls block until the
// script releases them. Every observable action is logged as an integer record:
// what the script did (stimuli), what the implementation did in response (cloud
// calls with arguments, per-interface Allocate/Release/Dispose calls with results,
// replies of Manager.Allocate) and, at every quiescent point, a snapshot of every
// interface. The extracted Coq model replays the log (coq/PoolRun.v).
package pool

import (
	"context"
	"fmt"
	"net/netip"
	"runtime"
	"sort"
	"sync"
	"testing/synctest"
	"time"

	apiErr "github.com/aliyun/alibaba-cloud-sdk-go/sdk/errors"
	"golang.org/x/time/rate"

	"github.com/AliyunContainerService/terway/pkg/eni"
	"github.com/AliyunContainerService/terway/types"
	"github.com/AliyunContainerService/terway/types/daemon"
)

// record kinds: stimuli
const (
	RAlloc        = 1 // rid pod pin precancel
	RCancel       = 2 // rid
	RRelease      = 3 // pod | annotated: eni a4 a6
	RComplete     = 4 // slot outcome
	RAdvance      = 5 // dt(ms)
	RSyncPool     = 6
	RRemoteRemove = 7 // slot fam idx | annotated: addr (0 = nothing removed)
	RMetaSync     = 8 // slot
	RRaceDispose  = 9 // slot n : the next allocation attempt on this slot is followed at once by Dispose(n)
	//                    (a balancer pass racing with the hand-out, before the goroutine that commits it can run)
	// observations
	EReply     = 10 // rid ok eni a4 a6 own4 own6
	ECallBegin = 11 // slot kind n4 n6 nips ips...
	ECallEnd   = 12 // slot kind ok effect code eni trunk prim n4 ips4.. n6 ips6..
	ELoad      = 13 // slot ok n4 r4.. n6 r6..
	ETime      = 14 // dt(ms) of virtual time since the previous record
	EAttempt   = 20 // slot rid pod nc pin erdma accepted reason c4 c6
	EDispose   = 21 // slot n ret whole n4 m4.. n6 m6..
	ERawQueues = 24 // slot n a4.. n a6.. n d4.. n d6.. : the raw request queues at the end of a block with a staged overlap
	ERelease   = 22 // slot pod eni a4 a6 handled uidPassed uidAtAdd   (uid generation numbers, -1 = none)
	ERestart   = 50 // the daemon crashed and started again; the preload records (12 slot 0 ..) of the new pool follow
	EMark      = 99
)

// cloud call kinds
const (
	KCreate = 1
	KAs4    = 2
	KAs6    = 3
	KUn4    = 4
	KUn6    = 5
	KDelete = 6
)

// outcomes of a cloud call chosen by the script
const (
	OOk        = 0
	OErrBefore = 1 // error, nothing happened
	OErrAfter  = 2 // error although the effect (or part of it) happened
	OPartial   = 3 // success with fewer addresses than asked
	OQuota     = 4 // EniPerInstanceLimitExceeded, nothing happened
	OExhaust   = 5 // InvalidVSwitchId.IpNotEnough, nothing happened
	OEarly     = 6 // not an answer: the cloud carries out the assign call now (metadata shows the addresses), the answer stays outstanding
)

func V4(id int) netip.Addr {
	return netip.AddrFrom4([4]byte{10, byte(id >> 16), byte(id >> 8), byte(id)})
}
func V6(id int) netip.Addr {
	var b [16]byte
	b[0], b[1] = 0xfd, 0
	b[13], b[14], b[15] = byte(id>>16), byte(id>>8), byte(id)
	return netip.AddrFrom16(b)
}
func AddrID(a netip.Addr) int {
	if !a.IsValid() {
		return 0
	}
	if a.Is4() {
		b := a.As4()
		return int(b[1])<<16 | int(b[2])<<8 | int(b[3])
	}
	b := a.As16()
	return int(b[13])<<16 | int(b[14])<<8 | int(b[15])
}
func PodName(p int) string {
	if p == 0 {
		return ""
	}
	return fmt.Sprintf("ns/p%d", p)
}
func PodNum(s string) int {
	var p int
	if _, err := fmt.Sscanf(s, "ns/p%d", &p); err != nil {
		return 0
	}
	return p
}
func eniName(id int) string { return fmt.Sprintf("eni-%d", id) }
func eniMAC(id int) string  { return fmt.Sprintf("02:00:00:00:%02x:%02x", id>>8, id&255) }
func eniNum(s string) int {
	var p int
	if _, err := fmt.Sscanf(s, "eni-%d", &p); err != nil {
		return 0
	}
	return p
}

type cloudENI struct {
	id     int
	v4, v6 map[int]bool
	prim   int
	trunk  bool
}

type outcome struct {
	code  int
	early []int // addresses the cloud assigned (and showed in its metadata) before the answer was released
}

type pending struct {
	slot, kind int
	done       chan outcome
	early      func() []int // applies the call's effect to the cloud ahead of the answer (assign calls only)
	earlyIDs   []int
}

type Config struct {
	Types                 []int // per slot: 0 secondary 1 trunk 2 erdma
	Preload               []int // per slot: number of addresses of an already attached interface (0 = none)
	On4, On6              bool
	Cap, Batch            int
	MinIdle, MaxIdle, Tot int
	Policy                int // 0 most_ips 1 least_ips
}

type World struct {
	mu          sync.Mutex
	cfg         Config
	t0          time.Time
	block       [][]int // records of the current block
	In          [][]int // all records (annotated input)
	Out         []int   // snapshots
	cloud       map[int]*cloudENI
	nextAddr    int
	nextENI     int
	pend        [][]*pending // per slot, FIFO
	locals      []*eni.Local
	nis         []*slotNI
	Mgr         *eni.Manager
	rids        map[*eni.LocalIPRequest]int
	nextRid     int
	cancels     map[int]context.CancelFunc
	held        map[int][3]int // pod -> eni a4 a6 of its latest successful reply
	last        map[int][3]int // pod -> what it held when it was last released
	addUID      map[int]int    // pod -> uid generation under which its allocation was acknowledged (set by the service harness)
	raceDispose map[int]int    // slot -> n of the Dispose that races with the next allocation attempt
	inflight    map[int]int    // pod -> requests without a reply yet
	ctx         context.Context
	cancel      context.CancelFunc
	wg          sync.WaitGroup
	bg          sync.WaitGroup
	stopping    bool
	lastMs      int
	extra       func() []int
	loadGate    map[int]chan struct{} // slot -> a metadata read of this slot is held open until the channel is closed
	loadEntered map[int]chan struct{}
	// FailRelease: pods whose Release fails at the interface (fault injection for the GC's independence clause)
	FailRelease map[int]bool
}

// push appends a record (caller holds w.mu); the virtual time that passed since the previous
// record is logged first, so that the model's clock follows the implementation's.
func (w *World) push(rec []int) {
	if now := w.ms(); now > w.lastMs {
		w.block = append(w.block, []int{ETime, now - w.lastMs})
		w.lastMs = now
	}
	w.block = append(w.block, rec)
}

func (w *World) ev(rec ...int) {
	w.mu.Lock()
	w.push(rec)
	w.mu.Unlock()
}

func (w *World) ms() int { return int(time.Since(w.t0) / time.Millisecond) }

func codeErr(code string) error {
	return apiErr.NewServerError(403, fmt.Sprintf("{\"Code\": \"%s\"}", code), "")
}

// ---- simulated cloud ----------------------------------------------------------------------

type slotFactory struct {
	w    *World
	slot int
}

func (f *slotFactory) wait(kind int, rec []int, early ...func() []int) outcome {
	w := f.w
	p := &pending{slot: f.slot, kind: kind, done: make(chan outcome, 1)}
	if len(early) > 0 {
		p.early = early[0]
	}
	w.mu.Lock()
	if w.stopping {
		w.mu.Unlock()
		return outcome{code: OErrBefore}
	}
	w.push(rec)
	w.pend[f.slot] = append(w.pend[f.slot], p)
	w.mu.Unlock()
	return <-p.done
}

// SetAddUID records the uid generation under which a pod's allocation was acknowledged.
func (w *World) SetAddUID(pod, gen int) {
	w.mu.Lock()
	w.addUID[pod] = gen
	w.mu.Unlock()
}

// UIDGen: "uid-<pod>" -> 0, "uid-<pod>-g<k>" -> k, anything else -> -1
func UIDGen(u string) int {
	var p, g int
	if n, _ := fmt.Sscanf(u, "uid-%d-g%d", &p, &g); n == 2 {
		return g
	}
	if n, _ := fmt.Sscanf(u, "uid-%d", &p); n == 1 {
		return 0
	}
	return -1
}

func (w *World) fresh() int { w.nextAddr++; return w.nextAddr }

func sortedKeys(m map[int]bool) []int {
	var r []int
	for k := range m {
		r = append(r, k)
	}
	sort.Ints(r)
	return r
}

func lst(l []int) []int { return append([]int{len(l)}, l...) }

func (f *slotFactory) CreateNetworkInterface(ipv4, ipv6 int, eniType string) (*daemon.ENI, []netip.Addr, []netip.Addr, error) {
	o := f.wait(KCreate, []int{ECallBegin, f.slot, KCreate, ipv4, ipv6, 0})
	w := f.w
	w.mu.Lock()
	defer w.mu.Unlock()
	end := func(ok, effect, code int, e *cloudENI) {
		rec := []int{ECallEnd, f.slot, KCreate, ok, effect, code}
		if e != nil {
			rec = append(rec, e.id, b2i(e.trunk), e.prim)
			rec = append(rec, lst(sortedKeys(e.v4))...)
			rec = append(rec, lst(sortedKeys(e.v6))...)
		} else {
			rec = append(rec, 0, 0, 0, 0, 0)
		}
		w.push(rec)
	}
	switch o.code {
	case OErrBefore:
		end(0, 0, 0, nil)
		return nil, nil, nil, fmt.Errorf("injected: create failed")
	case OQuota:
		end(0, 0, 1, nil)
		return nil, nil, nil, codeErr("EniPerInstanceLimitExceeded")
	case OExhaust:
		end(0, 0, 2, nil)
		return nil, nil, nil, codeErr("InvalidVSwitchId.IpNotEnough")
	}
	w.nextENI++
	e := &cloudENI{id: w.nextENI, v4: map[int]bool{}, v6: map[int]bool{}, trunk: eniType == "trunk"}
	n4, n6 := ipv4, ipv6
	if o.code == OPartial && n4 > 1 {
		n4--
	}
	for i := 0; i < n4; i++ {
		a := w.fresh()
		if i == 0 {
			e.prim = a
		}
		e.v4[a] = true
	}
	for i := 0; i < n6; i++ {
		e.v6[w.fresh()] = true
	}
	w.cloud[e.id] = e
	de := w.daemonENI(e)
	if o.code == OErrAfter {
		end(0, 1, 0, e)
		return de, nil, nil, fmt.Errorf("injected: create failed after the interface was created")
	}
	end(1, 1, 0, e)
	var r4, r6 []netip.Addr
	for _, a := range sortedKeys(e.v4) {
		r4 = append(r4, V4(a))
	}
	for _, a := range sortedKeys(e.v6) {
		r6 = append(r6, V6(a))
	}
	return de, r4, r6, nil
}

func (w *World) daemonENI(e *cloudENI) *daemon.ENI {
	d := &daemon.ENI{ID: eniName(e.id), MAC: eniMAC(e.id), Trunk: e.trunk, VSwitchID: "vsw-1"}
	d.PrimaryIP = types.IPSet{IPv4: V4(e.prim).AsSlice()}
	d.GatewayIP = types.IPSet{IPv4: V4(1 << 20).AsSlice()}
	return d
}

func b2i(b bool) int {
	if b {
		return 1
	}
	return 0
}

func (f *slotFactory) assign(kind int, eniID string, count int) ([]netip.Addr, error) {
	w := f.w
	o := f.wait(kind, []int{ECallBegin, f.slot, kind, count, 0, 0}, func() []int { // called with w.mu held
		e := w.cloud[eniNum(eniID)]
		if e == nil {
			return nil
		}
		var ids []int
		for i := 0; i < count; i++ {
			a := w.fresh()
			ids = append(ids, a)
			if kind == KAs4 {
				e.v4[a] = true
			} else {
				e.v6[a] = true
			}
		}
		return ids
	})
	w.mu.Lock()
	defer w.mu.Unlock()
	e := w.cloud[eniNum(eniID)]
	end := func(ok, effect, code int, ips []int) {
		rec := []int{ECallEnd, f.slot, kind, ok, effect, code, 0, 0, 0}
		if kind == KAs4 {
			rec = append(append(rec, lst(ips)...), 0)
		} else {
			rec = append(append(rec, 0), lst(ips)...)
		}
		w.push(rec)
	}
	if e == nil {
		end(0, 0, 0, nil)
		return nil, fmt.Errorf("injected: no such interface")
	}
	if o.early != nil && o.code != OOk {
		o.code = OErrAfter // the effect is there already: the only failure left is a lost answer
	}
	switch o.code {
	case OErrBefore:
		end(0, 0, 0, nil)
		return nil, fmt.Errorf("injected: assign failed")
	case OQuota:
		end(0, 0, 1, nil)
		return nil, codeErr("EniPerInstanceLimitExceeded")
	case OExhaust:
		end(0, 0, 2, nil)
		return nil, codeErr("InvalidVSwitchId.IpNotEnough")
	}
	n := count
	if (o.code == OPartial || o.code == OErrAfter) && n > 1 && o.early == nil {
		n--
	}
	var ids []int
	var addrs []netip.Addr
	for _, a := range o.early { // the cloud did its part before the answer: these are the addresses it assigned
		ids = append(ids, a)
		if kind == KAs4 {
			addrs = append(addrs, V4(a))
		} else {
			addrs = append(addrs, V6(a))
		}
	}
	for i := 0; i < n && o.early == nil; i++ {
		a := w.fresh()
		ids = append(ids, a)
		if kind == KAs4 {
			e.v4[a] = true
			addrs = append(addrs, V4(a))
		} else {
			e.v6[a] = true
			addrs = append(addrs, V6(a))
		}
	}
	if o.code == OErrAfter {
		end(0, 1, 0, ids)
		return addrs, fmt.Errorf("injected: assign failed after %d addresses were assigned", n)
	}
	end(1, 1, 0, ids)
	return addrs, nil
}

func (f *slotFactory) AssignNIPv4(eniID string, count int, mac string) ([]netip.Addr, error) {
	return f.assign(KAs4, eniID, count)
}
func (f *slotFactory) AssignNIPv6(eniID string, count int, mac string) ([]netip.Addr, error) {
	return f.assign(KAs6, eniID, count)
}

func (f *slotFactory) unassign(kind int, eniID string, ips []netip.Addr) error {
	var ids []int
	for _, a := range ips {
		ids = append(ids, AddrID(a))
	}
	o := f.wait(kind, append([]int{ECallBegin, f.slot, kind, 0, 0}, lst(ids)...))
	w := f.w
	w.mu.Lock()
	defer w.mu.Unlock()
	e := w.cloud[eniNum(eniID)]
	end := func(ok, effect int) {
		w.push([]int{ECallEnd, f.slot, kind, ok, effect, 0, 0, 0, 0, 0, 0})
	}
	if o.code == OErrBefore || o.code == OQuota || o.code == OExhaust || e == nil {
		end(0, 0)
		return fmt.Errorf("injected: unassign failed")
	}
	for _, a := range ids {
		if kind == KUn4 {
			delete(e.v4, a)
		} else {
			delete(e.v6, a)
		}
	}
	if o.code == OErrAfter {
		end(0, 1)
		return fmt.Errorf("injected: unassign failed after the addresses were removed")
	}
	end(1, 1)
	return nil
}

func (f *slotFactory) UnAssignNIPv4(eniID string, ips []netip.Addr, mac string) error {
	return f.unassign(KUn4, eniID, ips)
}
func (f *slotFactory) UnAssignNIPv6(eniID string, ips []netip.Addr, mac string) error {
	return f.unassign(KUn6, eniID, ips)
}

func (f *slotFactory) DeleteNetworkInterface(eniID string) error {
	o := f.wait(KDelete, []int{ECallBegin, f.slot, KDelete, 0, 0, 0})
	w := f.w
	w.mu.Lock()
	defer w.mu.Unlock()
	end := func(ok, effect int) {
		w.push([]int{ECallEnd, f.slot, KDelete, ok, effect, 0, 0, 0, 0, 0, 0})
	}
	if o.code == OErrBefore || o.code == OQuota || o.code == OExhaust || o.code == OPartial {
		end(0, 0)
		return fmt.Errorf("injected: delete failed")
	}
	delete(w.cloud, eniNum(eniID))
	if o.code == OErrAfter {
		end(0, 1)
		return fmt.Errorf("injected: delete failed after the interface was deleted")
	}
	end(1, 1)
	return nil
}

func (f *slotFactory) LoadNetworkInterface(mac string) ([]netip.Addr, []netip.Addr, error) {
	w := f.w
	w.mu.Lock()
	defer w.mu.Unlock()
	var e *cloudENI
	for _, c := range w.cloud {
		if eniMAC(c.id) == mac {
			e = c
		}
	}
	if e == nil {
		w.push([]int{ELoad, f.slot, 0, 0, 0})
		return nil, nil, fmt.Errorf("injected: interface not found")
	}
	k4, k6 := sortedKeys(e.v4), sortedKeys(e.v6)
	w.push(append(append([]int{ELoad, f.slot, 1}, lst(k4)...), lst(k6)...))
	var r4, r6 []netip.Addr
	for _, a := range k4 {
		r4 = append(r4, V4(a))
	}
	for _, a := range k6 {
		r6 = append(r6, V6(a))
	}
	if g := w.loadGate[f.slot]; g != nil {
		// the metadata server has answered (the snapshot above) but the answer is still on its way
		close(w.loadEntered[f.slot])
		delete(w.loadGate, f.slot)
		w.mu.Unlock()
		<-g
		w.mu.Lock()
	}
	return r4, r6, nil
}

func (f *slotFactory) GetAttachedNetworkInterface(preferTrunkID string) ([]*daemon.ENI, error) {
	return nil, nil
}

// ---- recording wrapper around one interface ---------------------------------------------------

type slotNI struct {
	w    *World
	slot int
	l    *eni.Local
}

func (n *slotNI) Allocate(ctx context.Context, cni *daemon.CNI, request eni.ResourceRequest) (chan *eni.AllocResp, []eni.Trace) {
	w := n.w
	req, _ := request.(*eni.LocalIPRequest)
	w.mu.Lock()
	rid := 0
	if req != nil {
		var ok bool
		rid, ok = w.rids[req]
		if !ok {
			w.nextRid++
			rid = w.nextRid
			w.rids[req] = rid
		}
	}
	pin, nc, erdma := 0, 0, 0
	if req != nil {
		pin, nc, erdma = eniNum(req.NetworkInterfaceID), b2i(req.NoCache), b2i(req.LocalIPType == eni.LocalIPTypeERDMA)
	}
	rec := []int{EAttempt, n.slot, rid, PodNum(cni.PodID), nc, pin, erdma, 0, 0, 0, 0}
	w.push(rec) // position reserved before the call; accepted/reason are filled in below (same backing array)
	race := 0
	if nc == 0 { // not for the balancer's own pre-heat requests: its pass has its own Dispose calls
		race = w.raceDispose[n.slot]
		delete(w.raceDispose, n.slot)
	}
	w.mu.Unlock()
	var sig chan struct{}
	if race > 0 {
		// a balancer pass hits the interface right after Allocate returned: whatever Allocate reserved for the pod must
		// already be out of Dispose's reach. The pass runs in its own goroutine (as the balancer does): the goroutine
		// that commits the hand-out holds the interface lock until this caller has read its answer.
		before := n.l.VerifSnapshot()
		sig = make(chan struct{})
		w.bg.Add(1)
		go func() {
			defer w.bg.Done()
			<-sig
			n.disposeFrom(before, race)
		}()
	}
	ch, tr := n.l.Allocate(ctx, cni, request)
	if sig != nil {
		close(sig)
	}
	reason := 0
	if ch == nil && len(tr) > 0 {
		reason = map[eni.ConditionType]int{eni.ResourceTypeMismatch: 1, eni.NetworkInterfaceMismatch: 2, eni.Full: 3, eni.InsufficientVSwitchIP: 4}[tr[0].Condition]
	}
	w.mu.Lock()
	rec[7], rec[8] = b2i(ch != nil), reason
	w.mu.Unlock()
	return ch, tr
}

func (n *slotNI) Release(ctx context.Context, cni *daemon.CNI, request eni.NetworkResource) (bool, error) {
	n.w.mu.Lock()
	fail := n.w.FailRelease[PodNum(cni.PodID)]
	n.w.mu.Unlock()
	if fail {
		return false, fmt.Errorf("injected: release failed")
	}
	res, is := request.(*eni.LocalIPResource)
	var rec []int
	if is {
		n.w.mu.Lock()
		ua, okUA := n.w.addUID[PodNum(cni.PodID)]
		n.w.mu.Unlock()
		if !okUA {
			ua = -1
		}
		rec = []int{ERelease, n.slot, PodNum(cni.PodID), eniNum(res.ENI.ID), AddrID(res.IP.IPv4), AddrID(res.IP.IPv6), 0, UIDGen(cni.PodUID), ua}
		n.w.ev(rec...)
		n.w.mu.Lock()
		rec = n.w.block[len(n.w.block)-1]
		n.w.mu.Unlock()
	}
	ok, err := n.l.Release(ctx, cni, request)
	if is {
		n.w.mu.Lock()
		rec[6] = b2i(ok)
		n.w.mu.Unlock()
	}
	return ok, err
}

func (n *slotNI) Priority() int { return n.l.Priority() }

func deletingSet(ips []eni.VerifIP) map[int]bool {
	m := map[int]bool{}
	for _, v := range ips {
		if v.Status == 3 {
			m[AddrID(v.Addr)] = true
		}
	}
	return m
}

func (n *slotNI) Dispose(k int) int {
	return n.disposeFrom(n.l.VerifSnapshot(), k)
}

// disposeFrom runs Dispose(k) and records what it marked, relative to the snapshot before.
func (n *slotNI) disposeFrom(before eni.VerifSnap, k int) int {
	// the record's position is reserved before the call (the call's broadcast may start cloud calls);
	// its contents are filled in afterwards
	w := n.w
	w.mu.Lock()
	w.push(nil)
	idx := len(w.block) - 1
	w.mu.Unlock()
	ret := n.l.Dispose(k)
	after := n.l.VerifSnapshot()
	diff := func(b, a []eni.VerifIP) []int {
		bs, as := deletingSet(b), deletingSet(a)
		var r []int
		for id := range as {
			if !bs[id] {
				r = append(r, id)
			}
		}
		sort.Ints(r)
		return r
	}
	rec := []int{EDispose, n.slot, k, ret, b2i(before.Status != 3 && after.Status == 3)}
	rec = append(rec, lst(diff(before.V4, after.V4))...)
	rec = append(rec, lst(diff(before.V6, after.V6))...)
	w.mu.Lock()
	w.block[idx] = rec
	w.mu.Unlock()
	return ret
}

func (n *slotNI) Run(ctx context.Context, podResources []daemon.PodResources, wg *sync.WaitGroup) error {
	return n.l.Run(ctx, podResources, wg)
}
func (n *slotNI) Usage() (int, int, error) { return n.l.Usage() }
func (n *slotNI) Status() eni.Status       { return n.l.Status() }

// ---- world ------------------------------------------------------------------------------------

var typeNames = []string{"secondary", "trunk", "erdma"}

// NewWorld must be called inside a synctest bubble.
func NewWorld(cfg Config) *World {
	eni.VerifSetRateLimit(rate.Inf)
	w := &World{cfg: cfg, t0: time.Now(), cloud: map[int]*cloudENI{}, rids: map[*eni.LocalIPRequest]int{}, nextRid: 1000,
		cancels: map[int]context.CancelFunc{}, held: map[int][3]int{}, last: map[int][3]int{}, addUID: map[int]int{}, raceDispose: map[int]int{}, inflight: map[int]int{}, FailRelease: map[int]bool{}}
	w.ctx, w.cancel = context.WithCancel(context.Background())
	pc := &daemon.PoolConfig{BatchSize: cfg.Batch, MaxIPPerENI: cfg.Cap, EnableIPv4: cfg.On4, EnableIPv6: cfg.On6}
	var nis []eni.NetworkInterface
	for i, ty := range cfg.Types {
		f := &slotFactory{w: w, slot: i + 1}
		var de *daemon.ENI
		if i < len(cfg.Preload) && cfg.Preload[i] > 0 {
			w.nextENI++
			e := &cloudENI{id: w.nextENI, v4: map[int]bool{}, v6: map[int]bool{}, trunk: ty == 1}
			for k := 0; k < cfg.Preload[i]; k++ {
				if cfg.On4 || k == 0 {
					a := w.fresh()
					if k == 0 {
						e.prim = a
					}
					e.v4[a] = true
				}
				if cfg.On6 {
					e.v6[w.fresh()] = true
				}
			}
			w.cloud[e.id] = e
			de = w.daemonENI(e)
			rec := []int{ECallEnd, i + 1, 0, 1, 1, 0, e.id, b2i(e.trunk), e.prim}
			rec = append(rec, lst(sortedKeys(e.v4))...)
			rec = append(rec, lst(sortedKeys(e.v6))...)
			w.push(rec)
		}
		l := eni.NewLocal(de, typeNames[ty], f, pc)
		w.locals = append(w.locals, l)
		ni := &slotNI{w: w, slot: i + 1, l: l}
		w.nis = append(w.nis, ni)
		nis = append(nis, ni)
	}
	w.pend = make([][]*pending, len(cfg.Types)+1)
	policy := daemon.EniSelectionPolicyMostIPs
	if cfg.Policy == 1 {
		policy = daemon.EniSelectionPolicyLeastIPs
	}
	w.Mgr = eni.NewManager(cfg.MinIdle, cfg.MaxIdle, cfg.Tot, 0, nis, policy, nil)
	return w
}

// Start loads every interface and starts its workers (Manager.Run is not used: its
// NodeCondition goroutine never exits, which a synctest bubble does not allow).
func (w *World) Start(podResources []daemon.PodResources) error {
	for _, ni := range w.nis {
		if err := ni.Run(w.ctx, podResources, &w.wg); err != nil {
			return err
		}
	}
	synctest.Wait()
	// load() and the first periodic sync read the interface; they are part of start-up, not MetaSync steps
	w.mu.Lock()
	var keep [][]int
	for _, r := range w.block {
		if r[0] != ELoad {
			keep = append(keep, r)
		}
	}
	w.block = keep
	w.mu.Unlock()
	w.mark()
	return nil
}

func (w *World) Stop() {
	w.mu.Lock()
	w.stopping = true
	var all []*pending
	for i := range w.pend {
		all = append(all, w.pend[i]...)
		w.pend[i] = nil
	}
	w.mu.Unlock()
	for _, c := range w.cancels {
		c()
	}
	w.cancel()
	for _, p := range all {
		p.done <- outcome{code: OErrBefore, early: p.earlyIDs}
	}
	w.wg.Wait()
	w.bg.Wait()
	synctest.Wait()
}

func (w *World) snapshot() []int {
	var out []int
	for _, l := range w.locals {
		s := l.VerifSnapshot()
		e := 0
		if s.ENI != nil {
			e = eniNum(s.ENI.ID)
		}
		inh := 0
		if !s.Inhibit.IsZero() {
			inh = int(s.Inhibit.Sub(w.t0) / time.Millisecond)
		}
		out = append(out, s.Status, e, inh)
		for _, set := range [][]eni.VerifIP{s.V4, s.V6} {
			sort.Slice(set, func(i, j int) bool { return AddrID(set[i].Addr) < AddrID(set[j].Addr) })
			out = append(out, len(set))
			for _, v := range set {
				out = append(out, AddrID(v.Addr), PodNum(v.Pod), v.Status, b2i(v.Primary))
			}
		}
		for _, q := range [][]*eni.LocalIPRequest{s.Alloc4, s.Alloc6, s.Dang4, s.Dang6} {
			var liveq []int
			for _, r := range q {
				if !eni.VerifReqDone(r) {
					liveq = append(liveq, w.rids[r])
				}
			}
			out = append(out, lst(liveq)...)
		}
	}
	return out
}

func (w *World) slotOfENI(e int) int {
	for i, l := range w.locals {
		if s := l.VerifSnapshot(); s.ENI != nil && eniNum(s.ENI.ID) == e {
			return i + 1
		}
	}
	return 0
}

// ownedOn returns the addresses a pod owns on the interface of one slot.
func (w *World) ownedOn(pod, slot int) (e, a4, a6 int) {
	if slot < 1 || slot > len(w.locals) || pod == 0 {
		return
	}
	s := w.locals[slot-1].VerifSnapshot()
	for _, v := range s.V4 {
		if PodNum(v.Pod) == pod {
			a4 = AddrID(v.Addr)
			e = eniNum(s.ENI.ID)
		}
	}
	for _, v := range s.V6 {
		if PodNum(v.Pod) == pod {
			a6 = AddrID(v.Addr)
			e = eniNum(s.ENI.ID)
		}
	}
	return
}

// owned returns the addresses a pod owns on any interface.
func (w *World) owned(pod int) (e, a4, a6 int) {
	for _, l := range w.locals {
		s := l.VerifSnapshot()
		for _, v := range s.V4 {
			if PodNum(v.Pod) == pod && pod != 0 {
				a4 = AddrID(v.Addr)
				e = eniNum(s.ENI.ID)
			}
		}
		for _, v := range s.V6 {
			if PodNum(v.Pod) == pod && pod != 0 {
				a6 = AddrID(v.Addr)
				e = eniNum(s.ENI.ID)
			}
		}
	}
	return
}

// mark closes the current block: annotates it, appends the quiescent-point snapshot.
func (w *World) mark() {
	w.mu.Lock()
	if now := w.ms(); now > w.lastMs {
		w.block = append(w.block, []int{ETime, now - w.lastMs})
		w.lastMs = now
	}
	blk := w.block
	w.block = nil
	w.mu.Unlock()
	// replies: what the pod owns now (for an error reply this exhibits a delivery the manager dropped)
	replies := map[int][]int{}
	for _, r := range blk {
		if r[0] == EReply {
			if r[2] == 0 {
				pod := r[len(r)-1]
				oe, o4, o6 := w.owned(pod)
				if h, ok := w.held[pod]; !ok || h != [3]int{oe, o4, o6} {
					r[6], r[7] = o4, o6
				}
			}
			replies[r[1]] = r
		}
	}
	for _, r := range blk {
		if r[0] == EReply {
			r = r[:len(r)-1] // drop the pod helper field
		}
		if r[0] == EAttempt && r[7] == 1 {
			if rp, ok := replies[r[2]]; ok {
				if rp[2] == 1 {
					r[9], r[10] = rp[4], rp[5]
				} else if rp[6] != 0 || rp[7] != 0 {
					// an error reply although something was delivered: what the pod owns on THIS interface
					// (a pod that holds addresses on two interfaces — known finding of C01 — must not have the
					// other interface's addresses attributed to this attempt)
					if e, o4, o6 := w.ownedOn(r[3], r[1]); e != 0 {
						r[9], r[10] = o4, o6
					}
				}
			} else if r[3] != 0 {
				// no reply record (the request was made by the daemon's handler): what the pod owns on this interface now
				if e, o4, o6 := w.owned(r[3]); e != 0 && w.slotOfENI(e) == r[1] {
					r[9], r[10] = o4, o6
				} else {
					// ... or, when the handler gave the allocation back before the block ended (its record could not be
					// written), what it was about to record (service harness: 42 1 pod cid eni a4 a6)
					for _, q := range blk {
						if len(q) >= 7 && q[0] == 42 && q[1] == 1 && q[2] == r[3] && w.slotOfENI(q[4]) == r[1] {
							r[9], r[10] = q[5], q[6]
						}
					}
				}
			}
		}
		w.In = append(w.In, r)
	}
	// a block with a staged overlap (metadata read held open while a call's answer arrives): which of the factory worker and the
	// workers woken by the sync got the pool's lock first is a race; the raw queues (finished requests included) at the end of
	// the block tell the replay which order it was
	for _, r := range blk {
		if r[0] == RMetaSync && len(r) > 2 && r[2] == 1 && r[1] >= 1 && r[1] <= len(w.locals) {
			snap := w.locals[r[1]-1].VerifSnapshot()
			rec := []int{ERawQueues, r[1]}
			for _, q := range [][]*eni.LocalIPRequest{snap.Alloc4, snap.Alloc6, snap.Dang4, snap.Dang6} {
				rec = append(rec, len(q))
				for _, x := range q {
					rec = append(rec, w.rids[x])
				}
			}
			w.In = append(w.In, rec)
		}
	}
	w.In = append(w.In, []int{EMark})
	w.Out = append(w.Out, w.snapshot()...)
	if w.extra != nil {
		w.Out = append(w.Out, w.extra()...)
	}
}

var dbgHook func(w *World, what string)

func eniDone(r *eni.LocalIPRequest) bool { return eni.VerifReqDone(r) }

func (w *World) quiesce() {
	synctest.Wait()
	if dbgHook != nil {
		dbgHook(w, fmt.Sprintf("rec%d", len(w.In)))
	}
	w.mark()
}

// ---- stimuli ----------------------------------------------------------------------------------

func (w *World) Alloc(rid, pod, pin int, precancel bool) {
	w.mu.Lock()
	if precancel {
		// a racing Dispose is only played against a request whose caller waits for the answer
		w.raceDispose = map[int]int{}
	}
	if w.inflight[pod] > 0 { // one request per pod at a time (the daemon's pending set)
		w.mu.Unlock()
		return
	}
	w.inflight[pod]++
	w.mu.Unlock()
	if h, ok := w.held[pod]; ok && pin < 0 {
		pin = h[0] // the daemon pins a repeated ADD to the interface of the stored allocation (daemon.go:197-201)
	} else if pin < 0 {
		pin = 0
	}
	w.ev(RAlloc, rid, pod, pin, b2i(precancel))
	req := eni.NewLocalIPRequest()
	if pin != 0 {
		req.NetworkInterfaceID = eniName(pin)
	}
	ctx, cancel := context.WithCancel(w.ctx)
	w.mu.Lock()
	w.rids[req] = rid
	w.cancels[rid] = cancel
	w.mu.Unlock()
	if precancel {
		cancel()
	}
	w.bg.Add(1)
	go func() {
		defer w.bg.Done()
		res, err := w.Mgr.Allocate(ctx, &daemon.CNI{PodID: PodName(pod)}, &eni.AllocRequest{ResourceRequests: []eni.ResourceRequest{req}})
		rec := []int{EReply, rid, 0, 0, 0, 0, 0, 0, pod}
		if err == nil && len(res) == 1 {
			if r, ok := res[0].(*eni.LocalIPResource); ok {
				rec[2], rec[3], rec[4], rec[5] = 1, eniNum(r.ENI.ID), AddrID(r.IP.IPv4), AddrID(r.IP.IPv6)
				w.mu.Lock()
				w.held[pod] = [3]int{rec[3], rec[4], rec[5]}
				w.mu.Unlock()
			}
		}
		w.mu.Lock()
		w.inflight[pod]--
		w.push(rec)
		w.mu.Unlock()
	}()
	w.quiesce()
	w.mu.Lock()
	w.raceDispose = map[int]int{} // armed for this request only
	w.mu.Unlock()
}

func (w *World) Cancel(rid int) {
	w.ev(RCancel, rid)
	if c, ok := w.cancels[rid]; ok {
		c()
	}
	w.quiesce()
}

func (w *World) Release(pod int) {
	w.mu.Lock()
	if w.inflight[pod] > 0 {
		w.mu.Unlock()
		return
	}
	h, ok := w.held[pod]
	delete(w.held, pod)
	if ok {
		w.last[pod] = h
	} else if l, was := w.last[pod]; was {
		h, ok = l, true // a repeated DEL, carrying what the pod once held (by now possibly another pod's)
	}
	w.mu.Unlock()
	w.ev(RRelease, pod, h[0], h[1], h[2])
	if ok {
		res := &eni.LocalIPResource{PodID: PodName(pod), ENI: daemon.ENI{ID: eniName(h[0])}}
		if h[1] != 0 {
			res.IP.IPv4 = V4(h[1])
		}
		if h[2] != 0 {
			res.IP.IPv6 = V6(h[2])
		}
		_ = w.Mgr.Release(w.ctx, &daemon.CNI{PodID: PodName(pod)}, &eni.ReleaseRequest{NetworkResources: []eni.NetworkResource{res}})
	}
	w.quiesce()
}

func (w *World) Complete(slot, code int) {
	w.ev(RComplete, slot, code)
	w.mu.Lock()
	var p *pending
	if slot < len(w.pend) && len(w.pend[slot]) > 0 {
		p = w.pend[slot][0]
		if code == OEarly {
			if p.early != nil && p.earlyIDs == nil {
				p.earlyIDs = p.early()
			}
			p = nil
		} else {
			w.pend[slot] = w.pend[slot][1:]
		}
	}
	w.mu.Unlock()
	if p != nil {
		p.done <- outcome{code: code, early: p.earlyIDs}
	}
	w.quiesce()
}

func (w *World) Advance(ms int) {
	w.ev(RAdvance, ms)
	time.Sleep(time.Duration(ms) * time.Millisecond)
	w.quiesce()
}

func (w *World) SyncPool() {
	w.ev(RSyncPool)
	w.bg.Add(1)
	go func() {
		defer w.bg.Done()
		w.Mgr.VerifSyncPool(w.ctx)
	}()
	w.quiesce()
}

func (w *World) RemoteRemove(slot, fam, idx int) {
	removed := 0
	if slot >= 1 && slot <= len(w.locals) {
		s := w.locals[slot-1].VerifSnapshot()
		if s.ENI != nil {
			w.mu.Lock()
			if e := w.cloud[eniNum(s.ENI.ID)]; e != nil {
				m := e.v4
				if fam == 6 {
					m = e.v6
				}
				ks := sortedKeys(m)
				var cand []int
				for _, k := range ks {
					if k != e.prim {
						cand = append(cand, k)
					}
				}
				if len(cand) > 0 {
					removed = cand[idx%len(cand)]
					delete(m, removed)
				}
			}
			w.mu.Unlock()
		}
	}
	w.ev(RRemoteRemove, slot, fam, idx, removed)
	w.quiesce()
}

func (w *World) RaceDispose(slot, n int) {
	w.ev(RRaceDispose, slot, n)
	w.mu.Lock()
	w.raceDispose[slot] = n
	w.mu.Unlock()
	w.quiesce()
}

func (w *World) MetaSync(slot int, hold ...bool) {
	if len(hold) > 0 && hold[0] && slot >= 1 && slot <= len(w.locals) {
		w.metaSyncOverlapping(slot)
		return
	}
	w.ev(RMetaSync, slot)
	if slot >= 1 && slot <= len(w.locals) {
		w.locals[slot-1].VerifSync()
	}
	w.quiesce()
}

// metaSyncOverlapping: the metadata read of the periodic sync is held open while the answer of the slot's outstanding
// cloud call arrives (success); only then the metadata answer is delivered.  The read's snapshot is the older of the two.
func (w *World) metaSyncOverlapping(slot int) {
	// with an ordinary request waiting on this interface the end of the sync starts a race for the pool's lock between the
	// woken request and the factory worker that brings the answer: both orders are legal and the records cannot tell them
	// apart, so the overlap is only staged when nothing but pre-heat requests wait here
	snap := w.locals[slot-1].VerifSnapshot()
	for _, q := range [][]*eni.LocalIPRequest{snap.Alloc4, snap.Alloc6, snap.Dang4, snap.Dang6} {
		for _, r := range q {
			if !r.NoCache && !eni.VerifReqDone(r) {
				w.MetaSync(slot)
				return
			}
		}
	}
	w.ev(RMetaSync, slot, 1)
	w.mu.Lock()
	gate, entered := make(chan struct{}), make(chan struct{})
	if w.loadGate == nil {
		w.loadGate, w.loadEntered = map[int]chan struct{}{}, map[int]chan struct{}{}
	}
	w.loadGate[slot], w.loadEntered[slot] = gate, entered
	w.mu.Unlock()
	done := make(chan struct{})
	go func() {
		defer close(done)
		w.locals[slot-1].VerifSync()
	}()
	select {
	case <-entered:
		w.mu.Lock()
		var p *pending
		if slot < len(w.pend) && len(w.pend[slot]) > 0 {
			p = w.pend[slot][0]
			w.pend[slot] = w.pend[slot][1:]
			w.push([]int{RComplete, slot, OOk})
		}
		w.mu.Unlock()
		if p != nil {
			p.done <- outcome{code: OOk, early: p.earlyIDs}
			// let the worker run as far as the pool's lock lets it (no synctest.Wait here: a goroutine blocked on a
			// mutex is not durably blocked)
			for i := 0; i < 3000; i++ {
				runtime.Gosched()
			}
		}
		close(gate)
		<-done
	case <-done: // the sync did not read the metadata (no interface in use)
		w.mu.Lock()
		delete(w.loadGate, slot)
		delete(w.loadEntered, slot)
		w.mu.Unlock()
	}
	w.quiesce()
}

// ---- hooks for the service-level harness (harness/svc) ----------------------------------------

func (w *World) Ev(rec ...int)        { w.ev(rec...) }
func (w *World) Quiesce()             { w.quiesce() }
func (w *World) Ctx() context.Context { return w.ctx }
func (w *World) BG() *sync.WaitGroup  { return &w.bg }

// Extra is appended to every quiescent-point snapshot (the service harness adds the store's contents).
var _ = 0

func (w *World) SetExtra(f func() []int) { w.extra = f }

// AttachedENIs lists what the cloud has attached, as the daemon sees it at start-up.
func (w *World) AttachedENIs() map[string]*daemon.ENI {
	w.mu.Lock()
	defer w.mu.Unlock()
	m := map[string]*daemon.ENI{}
	for _, e := range w.cloud {
		m[eniName(e.id)] = w.daemonENI(e)
	}
	return m
}

// Restart models a daemon crash and start: every goroutine of the old pool is stopped (blocked cloud
// calls return without effect), and a new pool is built around what the cloud has attached and loaded
// with the stored allocations, as daemon/builder.go does.
func (w *World) Restart(afterCancel func(), podResources func() []daemon.PodResources) error {
	// stop the old pool
	w.mu.Lock()
	w.stopping = true
	var all []*pending
	for i := range w.pend {
		all = append(all, w.pend[i]...)
		w.pend[i] = nil
	}
	w.mu.Unlock()
	for _, c := range w.cancels {
		c()
	}
	w.cancel()
	for _, p := range all {
		p.done <- outcome{code: OErrBefore, early: p.earlyIDs}
	}
	if afterCancel != nil {
		afterCancel()
	}
	w.wg.Wait()
	w.bg.Wait()
	synctest.Wait()
	// the records of the dying goroutines are not part of the history after the crash
	w.mu.Lock()
	w.block = nil
	w.stopping = false
	w.cancels = map[int]context.CancelFunc{}
	w.inflight = map[int]int{}
	w.rids = map[*eni.LocalIPRequest]int{}
	w.ctx, w.cancel = context.WithCancel(context.Background())
	w.wg = sync.WaitGroup{}
	w.bg = sync.WaitGroup{}
	ids := []int{}
	for id := range w.cloud {
		ids = append(ids, id)
	}
	sort.Ints(ids)
	pc := &daemon.PoolConfig{BatchSize: w.cfg.Batch, MaxIPPerENI: w.cfg.Cap, EnableIPv4: w.cfg.On4, EnableIPv6: w.cfg.On6}
	w.locals, w.nis = nil, nil
	var nis []eni.NetworkInterface
	w.block = append(w.block, []int{ERestart})
	for i := range w.cfg.Types {
		f := &slotFactory{w: w, slot: i + 1}
		var de *daemon.ENI
		ty := 0
		if i < len(ids) {
			e := w.cloud[ids[i]]
			de = w.daemonENI(e)
			if e.trunk {
				ty = 1
			}
			rec := []int{ECallEnd, i + 1, 0, 1, 1, 0, e.id, b2i(e.trunk), e.prim}
			rec = append(rec, lst(sortedKeys(e.v4))...)
			rec = append(rec, lst(sortedKeys(e.v6))...)
			w.block = append(w.block, rec)
		}
		l := eni.NewLocal(de, typeNames[ty], f, pc)
		w.locals = append(w.locals, l)
		ni := &slotNI{w: w, slot: i + 1, l: l}
		w.nis = append(w.nis, ni)
		nis = append(nis, ni)
	}
	w.pend = make([][]*pending, len(w.cfg.Types)+1)
	w.mu.Unlock()
	policy := daemon.EniSelectionPolicyMostIPs
	if w.cfg.Policy == 1 {
		policy = daemon.EniSelectionPolicyLeastIPs
	}
	w.Mgr = eni.NewManager(w.cfg.MinIdle, w.cfg.MaxIdle, w.cfg.Tot, 0, nis, policy, nil)
	return w.Start(podResources())
}

// AnnotateRestart appends to the latest restart record the pods whose stored allocation took effect
// (they own the stored addresses in the rebuilt pool); two records can claim one address when a DEL
// released it and stalled before deleting its record.
func (w *World) AnnotateRestart(winners []int) {
	for i := len(w.In) - 1; i >= 0; i-- {
		if len(w.In[i]) > 0 && w.In[i][0] == ERestart {
			w.In[i] = append(append([]int{ERestart, len(winners)}, winners...))
			return
		}
	}
}

// Owned reports what a pod owns in the pool now.
func (w *World) Owned(pod int) (e, a4, a6 int) { return w.owned(pod) }
