package pool

import (
	"math/big"

	"verifharness/hx"
)

// input: ns types.. preload.. on4 on6 cap batch min max tot policy nrec (len rec..)*

func Decode(in []*big.Int) (Config, [][]int, bool) {
	d := hx.NewD(in)
	var c Config
	ns := d.Int()
	if ns < 1 || ns > 8 {
		return c, nil, false
	}
	for i := 0; i < ns; i++ {
		c.Types = append(c.Types, d.Int())
	}
	for i := 0; i < ns; i++ {
		c.Preload = append(c.Preload, d.Int())
	}
	c.On4, c.On6 = d.Bool(), d.Bool()
	c.Cap, c.Batch, c.MinIdle, c.MaxIdle, c.Tot, c.Policy = d.Int(), d.Int(), d.Int(), d.Int(), d.Int(), d.Int()
	n := d.Int()
	var recs [][]int
	for i := 0; i < n; i++ {
		recs = append(recs, d.Ints())
	}
	return c, recs, !d.Bad
}

func Encode(c Config, recs [][]int) []*big.Int {
	var b hx.B
	b.I(len(c.Types)).I(c.Types...).I(c.Preload...).Bool(c.On4).Bool(c.On6)
	b.I(c.Cap, c.Batch, c.MinIdle, c.MaxIdle, c.Tot, c.Policy)
	b.I(len(recs))
	for _, r := range recs {
		b.Ints(r)
	}
	return b.L
}
