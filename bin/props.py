"""Per-property configuration of bin/check: harness package, case counts, the rule
that makes a case non-trivial, finding signatures, trusted-base notes."""

# overlay file name (under harness/overlay) -> path under /repo it is mapped to
OVERLAY = {
    "datapath_export_linux.go": "plugin/datapath/zz_verif_export_linux.go",
    "daemon_export.go": "daemon/zz_verif_export.go",
    "eni_export.go": "pkg/eni/zz_verif_export.go",
    "ctlnode_export.go": "pkg/controller/node/zz_verif_export.go",
    "k8s_export.go": "pkg/k8s/zz_verif_export.go",
    "podeni_export.go": "pkg/controller/pod-eni/zz_verif_export.go",
    "webhook_export.go": "pkg/controller/webhook/zz_verif_export.go",
    "ipamnode_export.go": "pkg/controller/multi-ip/node/zz_verif_export.go",
    "podctl_export.go": "pkg/controller/pod/zz_verif_export.go",
    "storage_export.go": "pkg/storage/zz_verif_export.go",
}

NOT_APPLICABLE = {}

# files under harness/inplace mapped (as _test.go files) into package-main directories of /repo
INPLACE = {
    "vfhx_test.go": ["cmd/terway-cli/zz_verif_hx_test.go", "plugin/terway/zz_verif_hx_test.go"],
    "plugin_c12_test.go": ["plugin/terway/zz_verif_c12_test.go"],
    "terwaycli_c20_test.go": ["cmd/terway-cli/zz_verif_c20_test.go"],
}

UNSHARE_ENI = ["unshare", "-m", "sh", "-c", "mkdir -p /var/run/eni && mount -t tmpfs tmpfs /var/run/eni && exec \"$@\"", "sh"]

PROPS = {
    "C14": {
        "pkg": "./c14/", "test": "TestVerif_C14", "n_quick": 6, "n_thorough": 200,
        "rule": "every prefix length 0..32 / 0..128 x VERIF_N boundary-biased addresses through tc.U32MatchSrc, "
                "ipvlan dstIPRule, ip.DeriveGatewayIP, utils.GetRouteTableID, link.VethNameForPod; each key case carries "
                "9 probe packets (inside / one-bit near misses / extremes) judged by the bitwise evaluator in_cidrb. "
                "non-trivial = classifier or gateway case with 0 < plen < width, or a name case with two different "
                "interface names; distinct = distinct input vectors",
        "trusted": ["model of the kernel's u32 match rule ((word ^ val) & mask) == 0 and of header word offsets (12/16; 8..20)",
                    "Sha1.v is an implementation of SHA-1 validated by a test vector and by agreement with crypto/sha1 on every name case"],
        "modelled": ["netlink serialisation of TcU32Key and the kernel classifier itself",
                     "IPv4-mapped IPv6 subnets (::ffff:0:0/96) are outside the gateway model's domain"],
        "assumptions": ["E7: SHA-1 truncated to 44 bits has no collision among the interfaces of one pod"],
        "level_text": "Theorems (closed under the global context) for every address, prefix length 0..32/0..128, subnet and name: "
                      "u32 keys match iff the bitwise CIDR evaluator says so; gateway = third-from-last or none; table id injective and "
                      "not reserved; name length; distinct hash inputs. Tied to the code by running tc/ip/link/datapath functions and the "
                      "extracted model on the same inputs and the proved checker on the implementation's output.",
        "level_note": "Trusted: Coq kernel, extraction (ExtrOcamlBasic), driver, harness. Modelled not verified: kernel u32 classifier "
                      "semantics, netlink serialisation. Name distinctness is partial: it needs collision-freeness of truncated SHA-1 (E7).",
    },
    "C19": {
        "pkg": "./c19/", "test": "TestVerif_C19", "n_quick": 400, "n_thorough": 40000,
        "rule": "limit vectors x configurations through daemon getPoolConfig, client.Limits methods, daemon checkInstance, and the daemon-side "
                "Node CR reconciler followed by the controller's k8sAnno (fake API server). non-trivial = hypotheses of the property hold "
                "(Adapters >= 1, per-adapter counts >= 0, shift <= 0) and some switch or clamp is exercised (non-zero configured sizes / a feature requested); "
                "distinct = distinct input vectors",
        "trusted": ["EniCapRatio fixed to its default 1 (the property's premise); int(float64(n)*1.0) = n for |n| < 2^53"],
        "modelled": ["daemon/builder.go node-annotation split for ERDMA and patchNodeRes are not modelled (they need a live ENI factory); "
                     "Node CR Spec.Pool copies the configured sizes unclamped and is not part of the watermark theorem"],
        "assumptions": ["E10: instance limits are those of a real instance type (Adapters >= 1, per-adapter counts >= 0)"],
        "level_text": "Theorems for all limit vectors and configurations (ratio 1): slots <= attachable secondaries, capacity = slots x IPv4PerAdapter, "
                      "0 <= min <= max <= capacity with no hypothesis on the configured sizes, member/ERDMA bounds, Node CR flavor sums to Adapters-1, "
                      "controller annotation bound, unsupported features disabled. Tied by running the real functions and reconcilers.",
        "level_note": "Trusted: Coq kernel, extraction, driver, harness with controller-runtime fake client. Not modelled: builder.go ERDMA annotation split, patchNodeRes.",
    },
    "C16": {
        "pkg": "./c16/", "test": "TestVerif_C16", "n_quick": 300, "n_thorough": 20000, "race": True,
        "rule": "histories of 3..40 issue/rollback/success operations over a pool of 1..5 parameter sets (mutants differing in one field, "
                "0..6 tags whose wire order is reshuffled per issue) through the real Finish/EFLO builders and the real key generator "
                "(LRU size 500, or 1..6 to exercise eviction); tokens renamed by first occurrence. non-trivial = history with at least one "
                "rollback followed by a later issue; distinct = distinct input vectors",
        "trusted": ["MD5 of the JSON request modelled as an injective function of the canonical request (E7); uuid.NewString fresh (E7)"],
        "modelled": ["encoding/json + crypto/md5 (hash = canonical encoding); k8s.io/utils/lru (modelled as move-to-front list with eviction)",
                     "injectivity of request_key's encoding is by construction (length-prefixed fields), not a theorem"],
        "assumptions": ["E7 hash/uuid collision-freeness", "E9: at most cap (500) distinct request hashes live in the LRU"],
        "level_text": "Theorem over all issue/rollback/success histories (atomic steps = the generator's mutex): the generator model's tokens satisfy the "
                      "property checker (retry reuses, otherwise fresh, in-flight tokens distinct) when the LRU never evicts; tag order does not change the hash key. "
                      "Tied by replaying generated histories on the real builders + generator and the extracted model/checker.",
        "level_note": "Trusted: Coq kernel, extraction, driver, harness. Hypotheses: MD5/UUID collision-free, <= cap distinct hashes. Goroutine-level race freedom is "
                      "shown by the race detector in the thorough tier (a test), logical atomicity by the theorem.",
    },
    "C17": {
        "pkg": "./c17/", "test": "TestVerif_C17", "n_quick": 500, "n_thorough": 30000, "race": True,
        "rule": "histories of GetOne (ordered/most/random/unset, ignore-zone on/off, candidate lists with duplicates and unknown ids) / Block / clock "
                "advance around the TTL / API changes on the real SwitchPool inside a testing/synctest bubble (virtual clock) with a fake VPC API; "
                "observed result, API calls and the caller's slice after the call are compared. Half of the histories also contain overlapping selections: selection A is held in its first cloud lookup "
                "(the fake API parks the call made on A's behalf) while selection B runs to completion on the same pool; the two are recorded in the order in which they took effect (B, then A) and each must "
                "answer as the sequential model does in that order (a wrong linearisation shows as a mismatch). non-trivial = history containing a GetOne that returned a vSwitch "
                "after at least one Block or clock advance; distinct = distinct input vectors",
        "trusted": ["testing/synctest virtual clock (go1.26.8)", "shuffle and sort ties resolved by the observed result, validated against the legal set",
                    "overlapping selections: the harness' choice of linearisation order (B before A when A was parked), attribution of cloud calls to a selection by a context value"],
        "modelled": ["k8s LRUExpireCache (size bound 100 not modelled: E9); singleflight; math/rand"],
        "assumptions": ["E9: at most 100 vSwitches cached"],
        "level_text": "Theorems for every pool state, candidate list, zone, policy and every resolution of shuffle/sort ties: result is a member, in zone unless fallback "
                      "(and then only when no in-zone candidate exists), has free addresses, ordered = first candidate, most = maximal, blocked ids are not chosen until expiry, "
                      "caller's list unchanged, reads do not disturb the view. Tied by replaying histories on the real pool under a virtual clock.",
        "level_note": "Trusted: Coq kernel, extraction, driver, harness, synctest. Data-race freedom under concurrent use is shown by the race detector (thorough tier), "
                      "the theorem covers logical atomicity of the cache reads.",
    },
    "C15": {
        "pkg": "./c15/", "test": "TestVerif_C15", "n_quick": 3000, "n_thorough": 300000,
        "rule": "bandwidth strings: structured ([space][sign]digits[.digits][space]unit[space], 32 unit spellings) + a fixed list of 70 hostile strings + random byte strings "
                "through parseBandwidth (value compared exactly: <= 9 integer and <= 3 fraction digits), the five units on one number, and malformed/mutated annotation, "
                "JSON, ConfigMap and stored-record documents through convertPod, ParsePodNetworks*, podNumaHints, MergeConfigAndUnmarshal+Validate, deserialize under recover(). "
                "non-trivial = bandwidth case the model accepts with a unit or a unit-less value, or a non-bandwidth document that is not valid JSON; distinct = distinct inputs",
        "trusted": ["ParseFloat on letter-free ASCII input accepts exactly [+-](digits+[.digits*]|.digits+) and rounds within the exact-safe region (argued in DESIGN.md C15)"],
        "modelled": ["encoding/json, yaml, strconv, apimachinery quantity parsing are library code: fuzzed under recover(), not proved",
                     "non-ASCII strings: only absence of a panic is compared (Unicode TrimSpace/ToUpper/IsLetter are not modelled)"],
        "assumptions": [],
        "level_text": "Theorems for every byte string: parseBandwidth's slice index is in range (no panic), unit-less positive values are accepted with their value, "
                      "a clean decimal followed by a unit gets that unit's multiple, multiples are monotone B<=K<=M<=G<=T. Other entry points are library parsing + glue: "
                      "exercised under recover() with structured and malformed streams (a test supporting the claim, not a theorem).",
        "level_note": "Trusted: Coq kernel, extraction, driver, harness. float64 rounding modelled by exact rationals inside the exact-safe region only. "
                      "Proof covers parseBandwidth; the remaining entry points are decided by recover()-guarded execution only (partial).",
    },
    "C20": {
        "pkg": "./c20/", "test": "TestVerif_C20", "n_quick": 1500, "n_thorough": 100000,
        "runs": [
            {"pkg": "./c20/", "test": "TestVerif_C20", "n_quick": 1500, "n_thorough": 100000},
            {"pkg": "./cmd/terway-cli/", "test": "TestVerif_C20_Chain", "inplace": True, "wrap": UNSHARE_ENI, "n_quick": 1500, "n_thorough": 100000},
        ],
        "rule": "base/overlay documents over the configuration's keys (type-correct values, nulls, wrong types, nested objects, arrays of objects) through the library's MergePatch "
                "(merged tree compared with the model) and through MergeConfigAndUnmarshal (must equal decode-of-merge; twice = once on the decoded Config); "
                "plugin lists (terway / cilium-cni / other / untyped, 6 virtual-type classes with case variants, 5 policy-provider classes) x kernel features x recorded capabilities "
                "through the real mergeConfigList (package main, in place, tmpfs on /var/run/eni). non-trivial = overlay with at least one null or nested member, or a plugin list "
                "with a terway entry on an eBPF kernel; distinct = distinct input vectors",
        "trusted": ["harness-side comparison MergeConfigAndUnmarshal(top, base) == Unmarshal(MergePatch(base, top)) (reflect.DeepEqual)"],
        "modelled": ["encoding/json decoding into daemon.Config (field-wise, E8); gabs JSON container; bpftool / uname probes (feature flags are inputs)",
                     "storeRuntimeConfig -> policy.go agent selection (c20_agent_coherent of the design) is not modelled yet"],
        "assumptions": ["E8: encoding/json decodes Config field-wise"],
        "level_text": "Theorems for all JSON documents with unique member names: empty overlay is the identity, absent members keep the base value, each overlay member acts per RFC 7396, "
                      "twice = once for overlays whose arrays hold scalars (the full statement is refuted for the library's null pruning inside arrays of objects, with witness); "
                      "for all plugin lists and feature vectors: order kept, virtual type / bandwidth mode in the supported sets, chainer present when ipvlan/datapathv2 is selected, "
                      "never a chainer without eBPF. Tied by running the real merge and the real generator.",
        "level_note": "Trusted: Coq kernel, extraction, driver, harness. The idempotence theorem carries the schema hypothesis flat_arrays (partial); Config decoding is modelled, not verified.",
    },
    "C12": {
        "pkg": "./c12/", "test": "TestVerif_C12", "n_quick": 1500, "n_thorough": 100000,
        "runs": [
            {"pkg": "./c12/", "test": "TestVerif_C12", "n_quick": 1500, "n_thorough": 100000},
            {"pkg": "./plugin/terway/", "test": "TestVerif_C12_Plugin", "inplace": True, "n_quick": 1500, "n_thorough": 100000},
        ],
        "rule": "every default-route / interface-name combination for 0..3 interfaces (exhaustive) plus sampled 4..5 through daemon defaultForNetConf; PodENI allocations "
                "(1..4 interfaces, v4/v6/dual, trunk or not, pods placed on the last addresses of the subnet, CIDRs with host bits, empty CIDRs, tiny subnets) through "
                "RemoteIPResource.ToRPC; the node-local pool's answer (LocalIPResource.ToRPC, single-stack pods on dual-stack interfaces) and the daemon's lookup of the addresses the cluster IPAM bound to the pod "
                "(CRDV2.multiIP over Node records of 1..3 interfaces: entries idle, other pods', another uid, being deleted, interface not attached, CIDR missing; virtual time for the polling); the full getDatePath matrix (exhaustive); NetConfs x CNI configs x runtime bandwidth overrides through the plugin's parseSetupConf "
                "(package main, in place). non-trivial = more than one interface, or a pod within 3 addresses of the subnet end, or a runtime override in one direction only; "
                "distinct = distinct input vectors",
        "trusted": ["protobuf getters; net.ParseCIDR / net.ParseIP"],
        "modelled": ["link.GetDeviceNumber (MAC -> ifindex) needs real NICs: cases use an empty MAC", "the cluster-IPAM lookup (crdv2.go multiIP) is driven against a fake API server with at most one entry per family bound to the pod (the record's own invariant, C02); VPC-route IP type in parseSetupConf is not driven"],
        "assumptions": ["E2: the cloud reserves the last three addresses of a vSwitch (never a pod address)"],
        "level_text": "Theorems for all configuration lists (exactly one default route, primary interface present, refused exactly for duplicate default / missing primary), all subnets "
                      "(gateway = third-from-last, inside the subnet, not the pod address under E2), all (type, vlan mode, trunk) triples (one datapath), all limits and overrides. "
                      "Tied by running the daemon's, pkg/eni's and the plugin's real functions.",
        "level_note": "Trusted: Coq kernel, extraction, driver, harness. The round trip through gRPC/JSON storage is not modelled (structs are passed directly).",
    },
    "C18": {
        "pkg": "./c18/", "test": "TestVerif_C18", "n_quick": 1500, "n_thorough": 100000,
        "rule": "pods (host network, ignored label, 0..2 containers, owners none/StatefulSet/DaemonSet/ReplicaSet, pod-eni mark, previous PodENI with a zone, API failure) x "
                "annotation family (pod-networks with 0..4 entries incl. empty/over-long/duplicate names, 0..11 security groups, absent/elastic/fixed/empty allocation type; "
                "pod-networks-request with 0..3 named PodNetworkings missing/not ready/with selector/zones; none; conflicting combinations; malformed JSON) x 0..3 selector-bearing "
                "PodNetworkings (pod/namespace selector absent/matching/not matching, fixed, not ready) x namespace present/absent x eni-config present/absent x cluster config "
                "(inject, trunk, CRD) through the real podWebhook over controller-runtime's fake client; the JSON patch is applied to the input pod and projected. "
                "non-trivial = the webhook patched the pod, or denied it; distinct = distinct input vectors",
        "trusted": ["label-selector matching is performed by the real apimachinery library inside the run; the model receives the match result the harness arranged (1 match / 2 no match)",
                    "evanphx/json-patch applies the response's patch to the input pod (harness side)"],
        "modelled": ["an allocationType object with an empty type counts as elastic (every consumer tests Type == Fixed only)",
                     "JSON decoding of the annotations; route / default-route / vSwitch-select options are copied through and not projected",
                     "podNetworkingWebhook (the PodNetworking defaulting hook) and validate.go are not modelled"],
        "assumptions": [],
        "level_text": "Theorems for all projected pods, PodNetworking lists, namespaces and cluster configurations: host-network and ignored pods are admitted unchanged; outside "
                      "centralized IPAM an unmarked pod that matches no network definition is admitted unchanged; conflicting annotations are denied; every patched pod has a non-empty "
                      "network list with names of 1..5 characters, pairwise distinct, an allocation type, fixed only for a stable name, device request = number of networks; the zone "
                      "affinity of a network request lies within the zones of every requested network. Tied by running the real podWebhook and the extracted model + proved checker.",
        "level_note": "Trusted: Coq kernel, extraction, driver, harness, controller-runtime fake client. 'vSwitches and security groups present' is checked on the implementation's output "
                      "(checker) and holds in the model for eth0 only (the code fills defaults for eth0 only).",
    },
    "C01": {
        "pkg": "./pool/", "test": "TestVerif_Pool", "n_quick": 400, "n_thorough": 20000, "retry_mismatch": True, "env": {"VERIF_PROP": "C01"},
        "rule": "histories of 8..48 stimuli (ADD incl. repeated and pre-cancelled ADDs pinned as the daemon pins them, cancel, DEL, completion of a blocked cloud call with "
                "success / error before effect / error after effect / partial / quota code / exhaustion code, clock advance 100 ms..10 min, balancer pass, remote removal of an address, "
                "metadata sync) over 1..3 interfaces (secondary/trunk, some already attached), IPv4 / IPv6 / dual, cap 1..5, batch 1..3, both selection policies, through the real eni.Manager + eni.Local "
                "inside a synctest bubble. Every cloud call, per-interface Allocate/Release/Dispose call and reply is logged in order with virtual time; at every quiescent point the full state of every interface "
                "(entries with owner/status/primary, live queues, back-off deadline) is compared with the model's. non-trivial = at least two pods got an address and at least one cloud call was in flight when a stimulus arrived; "
                "distinct = distinct input vectors",
        "trusted": ["testing/synctest virtual clock and quiescence detection (go1.26.8)",
                    "simulated cloud (harness/pool/world.go): blocks every factory call until the script releases it with a chosen outcome",
                    "the replay's expansion of observations into labels (coq/PoolRun.v) is search code: a wrong guess shows as a mismatch, never hides one"],
        "modelled": ["goroutine interleavings inside one quiescence interval are observed through their outcome only (event order in the log, snapshots)",
                     "Manager.Allocate's slot order (sort ties) is read off the observed per-interface Allocate calls"],
        "assumptions": ["E1: the cloud never returns an address that is already assigned on the node; an assign returns at most what was asked",
                        "H_seq: at most one unfinished request per pod (the daemon's pending set, C04) — a guard of the model's Allocate/Release labels"],
        "level_text": "Theorems over ALL label sequences of the pool LTS (one label per critical section of pkg/eni/local.go or per outside effect: cloud answer incl. faults and partial results, cancellation, remote removal, clock): "
                      "an address delivered to a pod and not released is owned by that pod in the interface's set, hence held by at most one pod; a newly handed-out address is valid, i.e. was assigned by the cloud and is neither "
                      "in an unassign call nor reported missing by a sync; a pod that owns an entry is given that entry again. Tied by replaying the implementation's complete log through the model's step function and comparing every snapshot.",
        "level_note": "Trusted: Coq kernel, extraction, driver, harness, synctest. Partial: interleavings inside a quiescence interval are validated through their outcome; the second-address-on-repeat-ADD finding (known finding) is a Manager-level behaviour outside the per-interface theorem.",
    },
    "C06": {
        "pkg": "./pool/", "test": "TestVerif_Pool", "n_quick": 400, "n_thorough": 20000, "retry_mismatch": True, "env": {"VERIF_PROP": "C06"},
        "rule": "as C01 with a mostly healthy cloud (12 in 100 calls fail, before or after their effect, so that an interface whose creation failed half-way is seen with requests still waiting on it), frequent balancer passes, pools near cap, min>max and max=0 configurations; every cloud call is judged at call time against the observer's ledger "
                "(addresses the cloud has on the interface + asked <= cap; interfaces <= slots; no unassign of a held or primary address; no delete of an interface with a held address, a waiting request, or of trunk/erdma type; "
                "Dispose marks only addresses nobody holds). non-trivial = at least one unassign or delete call was made; distinct = distinct input vectors",
        "trusted": ["testing/synctest virtual clock and quiescence detection (go1.26.8)",
                    "simulated cloud (harness/pool/world.go): blocks every factory call until the script releases it with a chosen outcome",
                    "the replay's expansion of observations into labels (coq/PoolRun.v) is search code: a wrong guess shows as a mismatch, never hides one"],
        "modelled": ["MaxENI = number of interface slots the daemon builds (daemon/builder.go), taken as configuration"],
        "assumptions": ["fault-free cloud (the property's quantifier); E1; H_seq; batch <= cap, cap >= 1"],
        "level_text": "Theorems over all fault-free label sequences: |tracked| + max(|waiting|, in flight) <= cap per family, hence cloud count + asked <= cap at every assign/create; every unassign call carries only unowned, non-primary addresses; "
                      "a delete call starts only when canDispose (no owner, no live waiting request, not trunk/erdma); Dispose marks only unowned entries. Tied as C01; the quota/safety clauses are also evaluated on the implementation's own call log.",
        "level_note": "Trusted as C01. The quota theorems (c06_quota_assign, c06_quota_create) hold for fault-free runs from a slot with limit >= 1 in which an interface is created into an empty slot (false only after the delete race of c06_delete_quiet_refuted); they rest on the in-place filtering of the request queues by AllocatingRequests.Len() in Allocate and at the factory worker's loop head, which the model has and the replay exercises. The window between DeleteNetworkInterface's start and end (a popped request's worker may still take an address) is stated in DESIGN.md; the theorem is about the call instant.",
    },
    "C07": {
        "pkg": "./pool/", "test": "TestVerif_Pool", "n_quick": 400, "n_thorough": 20000, "retry_mismatch": True, "env": {"VERIF_PROP": "C07"},
        "runs": [{"pkg": "./pool/", "test": "TestVerif_Pool", "n_quick": 400, "n_thorough": 20000, "env": {"VERIF_PROP": "C07"}},
                 {"pkg": "./mgr/", "test": "TestVerif_Mgr", "n_quick": 600, "n_thorough": 40000, "env": {"VERIF_PROP": "C07"}}],
        "rule": "as C01 with fault placements on a third of the cloud calls (error before effect, error after effect, partial result, quota and exhaustion codes) combined with cancellations and remote removals; "
                "at every quiescent point the snapshot is judged against the ledger: nothing the cloud assigned is untracked; with no call in flight what is tracked as valid is what the cloud has; no owner without holder; "
                "no create/assign call before the back-off deadline implied by earlier answers. A second harness drives the real Manager.Allocate with 1..4 resource requests per ADD (half of them the ERDMA pod's two) "
                "against stub backends that answer in any order with a resource, an error, a closed channel or not at all, with the caller's cancellation anywhere, each event taken in before the next - "
                "except two staged coincidences: an answer taken in the very instant the context ends (the backend cancels right after its send went through), and an answer that comes in while the dispatch loop is held by the next request's backend; "
                "then does what the daemon does on an error (Release of exactly what Allocate returned): clause 771 nothing is left marked as the pod's after a failed ADD, 772 a successful ADD holds what was returned. "
                "non-trivial = at least one cloud call failed (pool) / an ADD of several requests one of which failed (manager); distinct = distinct input vectors",
        "trusted": ["testing/synctest virtual clock and quiescence detection (go1.26.8)",
                    "simulated cloud (harness/pool/world.go): blocks every factory call until the script releases it with a chosen outcome",
                    "the replay's expansion of observations into labels (coq/PoolRun.v) is search code: a wrong guess shows as a mismatch, never hides one"],
        "modelled": ["the band (second sentence) is proved for the balancer's arithmetic (c07_band_reached_partial, c07_band_is_fixed, c07_never_trims_and_refills: the functions the replay compares with Manager.syncPool on every pass); that each disposal / pre-heat request of a pass is carried out under a healthy cloud is not proved (partial)"],
        "assumptions": ["factory contract: a failed create returns the interface if it exists; a failed assign returns the addresses that were assigned", "E1; H_seq"],
        "level_text": "Theorems over all label sequences incl. faults: cloud-assigned addresses are always tracked (no orphan); a Deleting entry stays until an unassign/delete is confirmed; after a truthful sync valid entries = cloud's; "
                      "create/assign begin only with the back-off deadline in the past and a needy request is refused meanwhile; owner => holder or in-flight request (per interface). Tied as C01.",
        "level_note": "Trusted as C01. Partial: the watermark band (liveness) is not proved. Manager.Allocate's aggregation over the requests of one ADD is modelled (coq/MgrModel.v) for schedules in which every answer is taken in before the next event "
                      "(c07_allocate_returns_what_was_handed_out, c07_failed_add_leaves_nothing), plus two coincidences the harness can stage (answer taken in the instant of the cancellation; answer collected during dispatch); other orders inside one instant are outside that model.",
    },
    "C02": {
        "pkg": "./ipam/", "test": "TestVerif_Ipam", "n_quick": 400, "n_thorough": 12000, "env": {"VERIF_PROP": "C02"},
        "rule": "3/4 single binding passes (buildIPMap + releasePodNotFound + assignIPFromLocalPool) over generated records: 1..3 interfaces (InUse / Attaching / Deleting, secondary / trunk / high-performance), "
                "0..5 addresses per family (Valid / Deleting, primary), mostly well-formed bindings with a share of partially bound pods and 1/12 malformed records, 0..6 pods (fresh, reporting addresses of one "
                "interface, reporting unknown addresses, RDMA), NodeRuntime readable or not; 1/4 histories of 20..50 events driving the real ReconcileNode.Reconcile against a simulated cloud and controller-runtime's "
                "fake API server (pods come and go, runtime reports, cloud faults, drift, controller restarts, update conflicts, virtual time). The model follows the observed outcome of Go's map order and must "
                "reproduce the record; the clauses 201/202 are judged on every record. non-trivial = a binding was created; distinct = distinct input vectors",
        "trusted": ["controller-runtime fake client (objects, status subresource, field index, interceptors for injected failures)", "simulated cloud (harness/ipam/history_test.go fakeCloud) and vswitch pool over it",
                    "testing/synctest virtual clock (go1.26.8)", "the harness' encoding of records, pods and NodeRuntime reports as integers (harness/ipam, IpamRun.v decoders)"],
        "modelled": ["map iteration order is an explicit choice read off the observed outcome (IpamModel.bind_all); completeness of the pick loop (a pod left without an address although one was free) is not checked",
                     "syncWithAPI / addIP / gc are not modelled: histories are judged by the clauses on what the implementation published after each Reconcile"],
        "assumptions": ["addresses are unique within the record per family and interface ids are non-zero (uniq, ids_ok)", "a pod reports only addresses of one interface (take_consistent) — see c02_pass_is_legal_steps_partial"],
        "level_text": "Theorems: a legal step (pick of a valid unowned address on an attached interface of the pod's kind and of the pod's other interface; re-adoption of exactly the reported address) keeps "
                      "'one address per family per pod, both on one interface'; every record reachable by such steps is well formed; the modelled pass over fresh pods is such a sequence for any map order; "
                      "the release pass only shrinks ownership; the checker's boolean implies the invariant. Tied by replaying the real loops on generated records and the real Reconcile on histories.",
        "level_note": "Trusted: Coq kernel, extraction, driver, harness. For passes with reporting pods the theorem gives legality of each step but keeps the consistency of the reported addresses as a hypothesis (partial); judged on the implementation by clause 201.",
    },
    "C03": {
        "pkg": "./ipam/", "test": "TestVerif_Ipam", "n_quick": 400, "n_thorough": 12000, "env": {"VERIF_PROP": "C03"},
        "runs": [{"pkg": "./ipam/", "test": "TestVerif_Ipam", "n_quick": 400, "n_thorough": 12000, "env": {"VERIF_PROP": "C03"}},
                 {"pkg": "./svc/", "test": "TestVerif_Svc", "n_quick": 200, "n_thorough": 6000, "env": {"VERIF_PROP": "C03"}},
                 {"pkg": "./rtflush/", "test": "TestVerif_RtFlush", "n_quick": 300, "n_thorough": 10000, "env": {"VERIF_PROP": "C03"}}],
        "rule": "1/4 binding passes, 1/4 trimming of one interface (releaseUnUsedIP with 0..8 to delete), 1/2 Reconcile histories as for C02 with pod deletions followed or not by the daemon's `deleted` report, "
                "reports that arrive late or for another uid, NodeRuntime unreadable, controller restarts and pool trimming. Clauses: 301 a binding is kept unless pod gone + report (or no uid) at the time of the pass, "
                "302 it is dropped when they hold and the pass succeeded, 303 every UnAssign / Detach / Delete call is judged against the owners before the pass and the bindings after it, 304 trimming keeps owners. "
                "A second harness covers the node agent's side: histories on the real networkService (as C04) in which pods are replaced by a new instance of the same name (new uid) before the DEL of the old "
                "sandbox arrives; clause 351: the release reaches the interface layer (which reports the teardown to NodeRuntime) under the uid stored with the allocation. "
                "A third harness drives the node agent's reporting itself (CRDV2.Release, the answer of multiIP, syncNodeRuntime, syncDeletedPods) on histories of 6..30 operations against the fake API server "
                "(failing Get / Create / Patch, the NodeRuntime object absent, being deleted or removed, the cluster IPAM binding and forgetting uids; the API server's dropping of .status on create is emulated): "
                "clauses 361 (`deleted` only for a uid whose DEL was processed), 362 (a processed DEL stays recorded until answered or saved), 363 (a successful flush reports everything recorded). "
                "non-trivial = a bound address whose pod is gone was seen by a pass; distinct = distinct input vectors",
        "trusted": ["as C02"],
        "modelled": ["in the controller histories the daemon's reports are scripted NodeRuntime updates; the daemon's side is checked separately up to the interface layer's Release call (uid attribution, clause 351): "
                     "the daemon's re-check of vanished pods (daemon.go:661-715) is driven through gcPods only (clause 352); report times have one-second resolution: two statuses stamped within the same second "
                     "(final status then decided by Go's map order in RuntimeFinalStatus) are not generated",
                     "an address that vanished in the cloud before the pass may leave the record (drift exemption gone_of)"],
        "assumptions": [],
        "level_text": "Theorems: the release pass changes an entry only by clearing its owner, only when the runtime object was readable, the pod is absent and (no uid recorded or final report = deleted); under those "
                      "conditions it does clear it; the binding pass never touches an owned entry; trimming marks only unowned non-primary valid addresses and gives up an interface only when nothing on it is owned. "
                      "Tied as C02; cloud calls are judged on the call log of the real Reconcile.",
        "level_note": "Trusted: Coq kernel, extraction, driver, harness. The node agent's reporting (third sentence) has its own model (RtModel) and theorems (reported only after a processed DEL, for all histories incl. API failures; nothing recorded is forgotten before it is saved); handleStatus (which addresses are unassigned) is judged on the call log only.",
    },
    "C08": {
        "pkg": "./ipam/", "test": "TestVerif_Ipam", "n_quick": 400, "n_thorough": 12000, "env": {"VERIF_PROP": "C08"},
        "rule": "1/2 planning cases (getEniOptions + validateENI + assignEniWithOptions: flavor 0..3 secondary / 0..1 trunk / 0..2 RDMA, per-interface limit 2..9, records of 0..4 interfaces in all states, demand 0..24 + 0..5), "
                "1/4 trimming, 1/4 Reconcile histories with injected cloud faults (error before effect, error after effect, quota code) on create / attach / assign / unassign / detach / delete, status-update conflicts, "
                "drift and restarts, each followed by a healthy tail of 13 rounds (full synchronisation due, 130 s apart). Clauses: 801 every request within per-interface limit and flavor, 802 a created interface is "
                "deleted, recorded, or attached-and-resynchronised, 803/804 the tail is a fixed point, 805 record = cloud at the end, 806 eligible pods are bound when capacity is spare, 811 plan within limits. "
                "non-trivial = a plan asked for addresses or a history made a cloud call; distinct = distinct input vectors",
        "trusted": ["as C02; a Create call that reports failure is assumed to have created nothing (the client wrapper's idempotent retry)"],
        "modelled": ["only the planning arithmetic is modelled and proved; convergence, roll-back and resynchronisation are decided on histories of the real Reconcile (no theorem about the closed loop)",
                     "vSwitch selection and exhaustion beyond a quota error code are not driven"],
        "assumptions": [],
        "level_text": "Theorems (partial): every slot of a plan asks for at most what the per-interface limit leaves (new interface: at most the limit); the number of slots never exceeds max(flavor total, interfaces present) "
                      "when the record holds no more trunk interfaces than the flavor lists (hypothesis shown necessary by a witness). The model's plan is compared with the real one on every planning case.",
        "level_note": "Trusted: Coq kernel, extraction, driver, harness. Partial: fixed point, roll-back and agreement after resynchronisation are checked on the implementation's histories, not proved.",
    },
    "C10": {
        "pkg": "./podeni/", "test": "TestVerif_PodENI", "n_quick": 150, "n_thorough": 5000, "env": {"VERIF_PROP": "C10"},
        "rule": "histories of 40..150 steps over 1..3 pod names: pods are created (elastic, fixed TTL, fixed Never, two interfaces with mixed strategies; fixed-name or ReplicaSet-owned), exit, are deleted and recreated with a new "
                "uid, also on another node; the real ReconcilePod and ReconcilePodENI are called for a name in any order, the record collector and the leaked-interface collector run, virtual time advances past the TTLs and "
                "the 10-minute grace; cloud faults (error before / after effect on create, attach, detach, delete), API faults (record create failure, status update failure, conflict) and an attach call held open while "
                "the pod goes away. After every step the pods, the PodENI records, the cloud call log and the cloud's interfaces are compared with the model's decision for that step and judged by the clauses "
                "1001 (phase edges) 1002 (no detach/delete under a running bound pod) 1003/1004 (no interface without a record) 1005 (records of vanished pods go). non-trivial = the history has steps; distinct = distinct input vectors",
        "trusted": ["controller-runtime fake client (status subresource, resourceVersion conflicts, finalizers and deletionTimestamp, interceptors for injected failures)", "simulated cloud (harness/podeni fakeCloud)",
                    "testing/synctest virtual clock (go1.26.8)", "the harness' integer encoding of pods, records and interfaces (PeRun.v decoders)"],
        "modelled": ["the work queues: which controller looks at which name when is the script's choice; informer cache staleness is not modelled (the fake client is always current)",
                     "a create call that reports failure is assumed to have created nothing (idempotent retry in the client wrapper)", "trunk / exclusive-ENI node mode switches and network-card index selection are not driven"],
        "assumptions": ["pod uids are unique and a sandbox that exited does not come back"],
        "level_text": "Theorems: every decision of the two controllers moves the record along an edge of the documented machine except the two named in the known finding; the cloud detach / delete actions are taken only in "
                      "Detaching or under deletion; those are entered only when the pod of the record's uid is absent, exited or replaced by another uid, and stay so (uids are never reused) - so no interface is pulled from "
                      "a running bound pod, for every interleaving of controller steps and pod events. Tied by following the model along every step of the real controllers.",
        "level_note": "Trusted: Coq kernel, extraction, driver, harness. Partial: roll-back on failed creation and the absence of leaks are judged on histories (clauses 1003/1004), not proved; cloud errors are modelled as 'step has no effect on the record'.",
    },
    "C11": {
        "pkg": "./podeni/", "test": "TestVerif_PodENI", "n_quick": 150, "n_thorough": 5000, "env": {"VERIF_PROP": "C11"},
        "rule": "as C10 with more fixed-IP pods and foreign cloud interfaces (no tags, only the cluster tag, only the creator tag, both, another cluster's tag, unrelated tags; 30 s .. 5000 s old; available, attached member, attached "
                "secondary). Clauses: 1101 a record's interfaces and addresses never change while it exists, 1102 a fixed-IP record is given up only by the record collector, with the pod absent or not needing it, no Never "
                "allocation and every TTL elapsed since last seen, 1103 the interface collector touches only interfaces with both tags of this cluster, older than the grace period, named by no record, 1104 at the end every "
                "running fixed-name pod with a fixed address is bound under its uid. non-trivial / distinct as C10",
        "trusted": ["as C10"],
        "modelled": ["as C10; the second resolution of the cloud's creation time leaves ages within a second of the grace period open"],
        "assumptions": [],
        "level_text": "Theorems: the collector's keep rule equals 'some fixed allocation votes keep' for every list of allocations (so the order of allocations does not matter) and a kept record is never moved to Deleting by "
                      "the collector; before the TTL has elapsed since last seen, or with a Never allocation, the record is kept; an interface is a victim only with both tags, age >= 600 s and no reference. "
                      "Tied by comparing the model's decision with the real collector passes on every history.",
        "level_note": "Trusted: Coq kernel, extraction, driver, harness. Re-binding of a fixed record to the new pod uid is judged on histories (clauses 1101/1104) and by following the pod controller's decision function.",
    },
    "C13": {
        "pkg": "./dp/", "test": "TestVerif_DP", "n_quick": 300, "n_thorough": 4000, "env": {"VERIF_PROP": "C13"},
        "rule": "2/3 generator cases: the container-side configuration generators of all four datapaths (policy-route veth, ipvlan, exclusive ENI, vlan) and the host-side generators of the policy-route datapath on "
                "IPv4 / IPv6 / dual configurations with default route, multi-network, vlan stripping, 0..2 extra routes (link-scoped, via a gateway, IPv6), random addresses and link indices; the policy-route "
                "generators are compared field by field with the model, all are judged by clause 1303 / 1306 (one default route per enabled family, nothing for a disabled one). 1/3 sequences of 4..13 operations "
                "applied for real in private network namespaces (root; veth pairs stand in for ENIs): setup of a pod slot with an address on an interface (v4 / v6 / dual), teardown with the real, a zero or a stale "
                "interface index, loss of a sandbox without DEL, loss and return of an interface (new index). After every operation the kernel's ip rules, host routes, per-interface tables, veths and FIB lookups "
                "(route get to the pod address; from the pod address arriving on its veth) are compared with the model's state and judged by clauses 1301 1302 1303 1304 1305 1307. "
                "non-trivial = a configuration was generated or an operation ran; distinct = distinct input vectors",
        "trusted": ["the Linux kernel of this sandbox (netns, veth, policy routing, route get) as the reference for what the programmed state does", "vishvananda/netlink dumps and RouteGetWithOptions",
                    "containernetworking testutils.NewNS (private namespaces, one locked OS thread per sequence)", "the harness' integer encoding of addresses, devices and tables (DpRun.v decoders)"],
        "modelled": ["ipvlan, exclusive-ENI and vlan datapaths: their container-side generators are modelled field by field and compared on every generated configuration; this kernel has no ipvlan / vlan / dummy link types, so their setup cannot run",
                     "traffic control (bandwidth, network priority, vlan tag filters) and sysctls are not observed", "a veth pair plays the ENI: its peer is up, nothing answers on it (the FIB lookup does not need a neighbour)"],
        "assumptions": ["addresses of pods that are set up at the same time are distinct (the IPAM properties)"],
        "level_text": "Theorems (policy-route datapath): from every state of the host namespace, stale rules of an earlier holder of the address included, a setup makes the kernel's lookup deliver to the pod's veth and "
                      "send pod-sourced traffic out of the owning interface via its gateway, per family; a teardown removes every rule of the address, the veth and the routes through it and leaves every other "
                      "rule, veth, route and table as it was; the container gets exactly one default route per enabled family when asked, whatever the extra routes. Tied by comparing the model with the real "
                      "generators and with the kernel's state after every real Setup / Teardown.",
        "level_note": "Trusted: Coq kernel, extraction, driver, harness, the sandbox kernel. Partial: three of the four datapaths are modelled and proved at the level of their generated configuration only (their kernel programming cannot run here).",
    },
    "C04": {
        "pkg": "./svc/", "test": "TestVerif_Svc", "n_quick": 400, "n_thorough": 20000, "retry_mismatch": True, "env": {"VERIF_PROP": "C04"},
        "rule": "histories of 10..40 stimuli on the real networkService (AllocIP / ReleaseIP / GetIPInfo called directly) over the real pool: ADD / DEL / GET for 1..4 pods with current, older and newer "
                "sandbox ids, requests overlapping the in-flight request of the same pod (cloud calls held open), cancellation of a request's context, cloud call outcomes, pods vanishing, GC passes. "
                "Replies, store operations, per-interface pool calls and snapshots of pool + store at every quiescent point are compared with the model. non-trivial = at least one request was rejected as "
                "'processing' or carried a sandbox id different from the stored one; distinct = distinct input vectors",
        "trusted": ["testing/synctest virtual clock and quiescence detection (go1.26.8); gcPods is only started while no RPC holds the service's read lock (a goroutine parked on sync.RWMutex is not durably blocked for synctest)",
                    "fake Kubernetes view (GetPod / GetLocalPods / PodExist with injectable API failure); recording store around the real bolt-backed DiskStorage with parking points before/after every Put and Delete",
                    "simulated cloud and pool instrumentation as for C01; the replay's expansion of observations into labels is search code"],
        "modelled": ["the gRPC transport (handlers are called directly); IPStickTime = 0 (the sticky-IP path is deprecated and not driven)",
                     "Manager-level drop of a delivered response after cancellation (manager.go:215-218) is judged on snapshots (clause 406), not modelled"],
        "assumptions": [],
        "level_text": "Theorems: the pending set admits one request per pod and is restored at exit; a DEL/GET with another sandbox id releases nothing, changes no record and returns no configuration; DEL twice = once; "
                      "a repeated ADD is pinned to the stored interface and there the pool can only return the entry the pod owns; the roll-back of a cancelled request preserves the pool invariant (per interface). "
                      "Tied by replaying the service's complete log (replies, store operations, pool calls) through the model and comparing pool + store snapshots.",
        "level_note": "Trusted: Coq kernel, extraction, driver, harness. 'A failed ADD hands back every address' is proved per interface (roll-back inside Local.commit); the Manager-level path is partial (checked on the implementation's snapshots).",
    },
    "C05": {
        "pkg": "./svc/", "test": "TestVerif_Svc", "n_quick": 400, "n_thorough": 20000, "retry_mismatch": True, "env": {"VERIF_PROP": "C05"},
        "rule": "as C04 with crash points: the daemon is crashed (store file copied as it is on disk, every goroutine stopped, blocked cloud calls answered without effect) at quiescent points and while a handler is parked "
                "before / after the disk write of its Put or Delete; a new pool is built from what the cloud has attached and the reopened store (daemon's filterENINotFound + Local.load), and the run continues. "
                "After every restart the acknowledged allocations must still be owned by their pods and every owner must have a record. non-trivial = at least one crash with an acknowledged allocation; distinct = distinct input vectors",
        "trusted": ["testing/synctest virtual clock and quiescence detection (go1.26.8); gcPods is only started while no RPC holds the service's read lock (a goroutine parked on sync.RWMutex is not durably blocked for synctest)",
                    "fake Kubernetes view (GetPod / GetLocalPods / PodExist with injectable API failure); recording store around the real bolt-backed DiskStorage with parking points before/after every Put and Delete",
                    "simulated cloud and pool instrumentation as for C01; the replay's expansion of observations into labels is search code"],
        "modelled": ["bolt's commit atomicity / durability and the file system (a Put or Delete is atomic on disk; the crash copies the database file between operations)",
                     "the daemon's start-up sequence beyond load() (builder.go) is reproduced by the harness"],
        "assumptions": ["E8: a committed bolt transaction is atomic and durable"],
        "level_text": "Theorems: for every crash position inside a handler, acknowledged ADD => record on disk, acknowledged DEL => none, memory never ahead of disk; after load() an address is owned only through a stored "
                      "allocation that lists it (what was taken but not acknowledged is reclaimable); the pool invariant, hence exclusivity, holds for every run from a state satisfying it. Tied by crashing the real service at "
                      "enumerated points and comparing the rebuilt pool and store with the model's restart.",
        "level_note": "Trusted: Coq kernel, extraction, driver, harness, bolt. Inv (load_slot ...) is validated by the correspondence runs, not proved (partial); the stale-record finding is a known finding.",
    },
    "C09": {
        "pkg": "./svc/", "test": "TestVerif_Svc", "n_quick": 400, "n_thorough": 20000, "retry_mismatch": True, "env": {"VERIF_PROP": "C09"},
        "runs": [{"pkg": "./svc/", "test": "TestVerif_Svc", "n_quick": 400, "n_thorough": 20000, "env": {"VERIF_PROP": "C09"}},
                 {"pkg": "./podexist/", "test": "TestVerif_PodExist", "n_quick": 300, "n_thorough": 20000, "env": {"VERIF_PROP": "C09"}}],
        "rule": "as C04 with frequent GC passes over stores with records of running pods, exited sandboxes, pods deleted from the API, interfaces that are not on the machine, API failures and injected release failures; "
                "after every pass the store and the pool are compared with the model's pass. A second harness asks the daemon's own PodExist (the API answer the pass relies on; the service harness stands a fake in its place) "
                "against controller-runtime's fake client: 0..5 pods, the queried name on this node, on another node, absent, API unreachable (clauses 905 `exists` only for a pod of this node, 906 a pod of this node is found). non-trivial = at least one pass ran with a vanished pod's record in the store; distinct = distinct input vectors",
        "trusted": ["testing/synctest virtual clock and quiescence detection (go1.26.8); gcPods is only started while no RPC holds the service's read lock (a goroutine parked on sync.RWMutex is not durably blocked for synctest)",
                    "fake Kubernetes view (GetPod / GetLocalPods / PodExist with injectable API failure); recording store around the real bolt-backed DiskStorage with parking points before/after every Put and Delete",
                    "simulated cloud and pool instrumentation as for C01; the replay's expansion of observations into labels is search code"],
        "modelled": ["kernel rule cleanup (gcPolicyRoutes) runs for real on this host: the simulated interfaces are never present, so it takes the 'interface not on the node' path",
                     "IPStickTime = 0; cleanRuntimeNode (CRD mode only) is not driven"],
        "assumptions": ["E5: the kubelet retries failed DELs"],
        "level_text": "Theorems over the pass as a function of (records, node's pod list, API answers incl. failures, cleanup results): only records of pods that are neither running locally nor known to the API are collected, "
                      "and only on the API's word; every such record is collected by a pass whose cleanups work; the 'independent' clause is refuted for the unchanged tree with a witness (repaired by a fix: commit). "
                      "Tied by running the real gcPods and comparing store + pool after every pass.",
        "level_note": "Trusted: Coq kernel, extraction, driver, harness. In-flight safety (the service's RWMutex) is by construction of the handlers and is not exercised concurrently (synctest limitation stated in the trusted base).",
    },
}


def signature(prop, ins, outs, extra=""):
    f = globals().get("sig_" + prop)
    if f:
        try:
            return f(ins, outs, extra)
        except TypeError:
            return f(ins, outs)
    return "%s:fn%s" % (prop, ins[0] if ins else "?")


def nontrivial(prop, ins, outs):
    f = globals().get("nt_" + prop)
    return f(ins, outs) if f else True


def distribution(prop, cases):
    f = globals().get("dist_" + prop)
    if f:
        return f(cases)
    d = {}
    for _, ins, _ in cases:
        k = "fn%s" % (ins[0] if ins else "?")
        d[k] = d.get(k, 0) + 1
    return d


# ---- C14 ---------------------------------------------------------------------
def sig_C14(ins, outs):
    fn = ins[0]
    if fn == "4":
        w, net, plen = int(ins[1]), int(ins[2]), int(ins[3])
        top = (net >> (w - plen) << (w - plen)) >> (w - 8) if plen <= w else 0
        if w == 128 and plen + 2 <= w and outs == ["0"]:
            # the subnet's last address has the IPv4-mapped form ::ffff:a.b.c.d
            last = (net >> (w - plen) << (w - plen)) | ((1 << (w - plen)) - 1)
            if last >> 48 == 0 and (last >> 32) & 0xffff == 0xffff:
                return "C14:gateway:empty-for-ipv6-subnet-whose-last-address-is-ipv4-mapped"
        if plen + 2 <= w and outs == ["0"] and top == 0:
            return "C14:gateway:empty-for-subnet-with-leading-zero-byte"
        return "C14:gateway:w%d" % w
    return {"1": "C14:u32-v4-src", "2": "C14:u32-v4-dst", "3": "C14:u32-v6-src", "5": "C14:table", "6": "C14:veth"}.get(fn, "C14:?")


def nt_C14(ins, outs):
    fn = ins[0]
    if fn in ("1", "2"):
        return 0 < int(ins[2]) < 32
    if fn == "3":
        return 0 < int(ins[2]) < 128
    if fn == "4":
        return 0 < int(ins[3]) < int(ins[1])
    if fn == "6":
        return True
    return False


def dist_C14(cases):
    d = {"u32_v4_src": 0, "u32_v4_dst": 0, "u32_v6_src": 0, "gateway_v4": 0, "gateway_v6": 0, "gateway_none": 0,
         "table": 0, "veth": 0, "veth_same_if": 0}
    for _, ins, outs in cases:
        fn = ins[0]
        if fn == "1": d["u32_v4_src"] += 1
        elif fn == "2": d["u32_v4_dst"] += 1
        elif fn == "3": d["u32_v6_src"] += 1
        elif fn == "4":
            d["gateway_v4" if ins[1] == "32" else "gateway_v6"] += 1
            if outs == ["0"]: d["gateway_none"] += 1
        elif fn == "5": d["table"] += 1
        elif fn == "6": d["veth"] += 1
    return d


# ---- C19 ---------------------------------------------------------------------
def sig_C19(ins, outs):
    fn = ins[0]
    if fn == "1":
        v = [int(x) for x in ins]
        o = [int(x) for x in outs] if len(outs) == 8 else None
        if o and (o[4] < 0 or o[5] < 0 or o[0] < 0 or o[3] < 0):
            return "C19:poolconfig:negative-watermark-or-capacity"
        return "C19:poolconfig"
    return {"2": "C19:limits", "3": "C19:checkInstance", "4": "C19:nodecr"}.get(fn, "C19:?")


def nt_C19(ins, outs):
    v = [int(x) for x in ins]
    if v[0] == 1:
        return v[1] >= 1 and v[2] >= 0 and v[7] <= 0 and (v[5] or v[6] or v[8] or v[9])
    if v[0] == 2:
        return v[1] >= 1 and v[2] >= 0
    if v[0] == 3:
        return bool(v[7] or v[8] or v[9])
    return True


# ---- C16 ---------------------------------------------------------------------
def _c16_ops(ins):
    v = [int(x) for x in ins]
    if v[0] == -1:
        return [[0]] * v[1] + [[1]] * v[1] + [[0]] * v[2]
    i, ops = 2, []
    for _ in range(v[1]):
        n = v[i]
        ops.append(v[i + 1:i + 1 + n])
        i += 1 + n
    return ops


def sig_C16(ins, outs):
    try:
        ops = _c16_ops(ins)
        ntags = 0
        for o in ops:
            if o[0] == 0 and o[2] == 0:
                ntags = max(ntags, 1)
        kinds = "".join("IRS"[o[0]] for o in ops)
        if ins[0] == "-1":
            return "C16:concurrent-issue"
        return "C16:retry-token" if "R" in kinds else "C16:token"
    except Exception:
        return "C16:?"


def nt_C16(ins, outs):
    try:
        kinds = "".join("IRS"[o[0]] for o in _c16_ops(ins))
        return "R" in kinds and "I" in kinds[kinds.index("R"):]
    except Exception:
        return False


def dist_C16(cases):
    d = {"histories": len(cases), "ops": 0, "issue": 0, "rollback": 0, "success": 0, "rejected": 0, "small_lru": 0}
    for _, ins, outs in cases:
        try:
            ops = _c16_ops(ins)
        except Exception:
            continue
        d["ops"] += len(ops)
        for o in ops:
            d[["issue", "rollback", "success"][o[0]]] += 1
        d["rejected"] += outs.count("-1")
        if ins[0] == "-1":
            d["concurrent_rounds"] = d.get("concurrent_rounds", 0) + 1
        elif int(ins[0]) < 500:
            d["small_lru"] += 1
    return d


# ---- C17 ---------------------------------------------------------------------
def _c17_ops(ins):
    v = [int(x) for x in ins]
    i, ops = 2, []
    for _ in range(v[1]):
        n = v[i]
        ops.append(v[i + 1:i + 1 + n])
        i += 1 + n
    return ops


def sig_C17(ins, outs):
    try:
        ops = _c17_ops(ins)
        for o in ops:
            if o[0] == 0:
                nids = o[4]
                ids = o[5:5 + nids]
                rest = o[5 + nids:]
                nf = rest[1]
                after = rest[2 + nf + 1:]
                if after != ids:
                    return "C17:callers-list-reordered:policy%d" % o[2]
        return "C17:selection"
    except Exception:
        return "C17:?"


def nt_C17(ins, outs):
    try:
        ops = _c17_ops(ins)
        seen = False
        for o in ops:
            if o[0] in (1, 2):
                seen = True
            if o[0] == 0 and seen and o[5 + o[4]] != 0:
                return True
        return False
    except Exception:
        return False


def dist_C17(cases):
    d = {"histories": len(cases), "getone": 0, "block": 0, "advance": 0, "api": 0, "policy": {"0": 0, "1": 0, "2": 0, "3": 0}, "errors": 0}
    for _, ins, outs in cases:
        try:
            for o in _c17_ops(ins):
                d[["getone", "block", "advance", "api"][o[0]]] += 1
                if o[0] == 0:
                    d["policy"][str(o[2])] += 1
                    if o[5 + o[4]] == 0:
                        d["errors"] += 1
        except Exception:
            pass
    return d


# ---- C15 ---------------------------------------------------------------------
def _c15_str(ins, pos):
    n = int(ins[pos])
    return bytes(int(x) & 255 for x in ins[pos + 1:pos + 1 + n])


def sig_C15(ins, outs):
    fn = ins[0]
    if fn == "1":
        s = _c15_str(ins, 2)
        if outs == ["-998"] and not any(chr(c).isalpha() for c in s if c < 128):
            return "C15:parseBandwidth:panic-on-value-without-unit"
        return "C15:parseBandwidth"
    if fn == "9":
        return "C15:parseBandwidth:units"
    if fn == "2" and outs == ["-998"]:
        return "C15:convertPod:panic"
    return "C15:fn" + fn


def nt_C15(ins, outs):
    if ins[0] == "1":
        return outs[:1] == ["0"]
    if ins[0] == "9":
        return True
    return True


def dist_C15(cases):
    d = {"bandwidth": 0, "bandwidth_ok": 0, "bandwidth_err": 0, "bandwidth_nonascii": 0, "units": 0, "convertPod": 0, "podNetworks": 0, "numa": 0, "config": 0, "record": 0, "panics": 0}
    names = {"2": "convertPod", "3": "podNetworks", "4": "numa", "5": "config", "6": "record", "9": "units"}
    for _, ins, outs in cases:
        if ins[0] == "1":
            d["bandwidth"] += 1
            k = {"0": "bandwidth_ok", "1": "bandwidth_err", "2": "bandwidth_nonascii"}.get(outs[0] if outs else "")
            if k:
                d[k] += 1
        elif ins[0] in names:
            d[names[ins[0]]] += 1
        if outs == ["-998"]:
            d["panics"] += 1
    return d


# ---- C20 ---------------------------------------------------------------------
def sig_C20(ins, outs):
    if ins[0] == "1":
        if outs[-2:-1] == ["0"]:
            return "C20:merge:MergeConfigAndUnmarshal-differs-from-merge-patch"
        return "C20:merge"
    return "C20:chain"


def nt_C20(ins, outs):
    if ins[0] == "1":
        return "0" in ins[1:] or ins.count("5") > 2
    return ins[1] == "1" and int(ins[6]) > 0


def dist_C20(cases):
    d = {"merge": 0, "merge_not_objects_or_error": 0, "chain": 0, "chain_error": 0, "chain_ebpf": 0, "chain_appended_chainer": 0}
    for _, ins, outs in cases:
        if ins[0] == "1":
            d["merge"] += 1
            if outs == ["0"]:
                d["merge_not_objects_or_error"] += 1
        else:
            d["chain"] += 1
            if outs == ["0"]:
                d["chain_error"] += 1
            if ins[1] == "1":
                d["chain_ebpf"] += 1
            if "-1" in outs[2::5]:
                d["chain_appended_chainer"] += 1
    return d


# ---- C12 ---------------------------------------------------------------------
def sig_C12(ins, outs):
    return {"1": "C12:default-route", "2": "C12:podeni-netconf", "3": "C12:datapath", "4": "C12:parseSetupConf",
            "5": "C12:local-pool-netconf", "6": "C12:cluster-ipam-netconf"}.get(ins[0], "C12:?")


def nt_C12(ins, outs):
    if ins[0] == "1":
        return int(ins[1]) > 1
    if ins[0] == "2":
        return int(ins[2]) > 1 or True
    if ins[0] == "4":
        return (int(ins[24]) > 0) != (int(ins[25]) > 0) or int(ins[28]) > 0
    if ins[0] == "6":
        return outs[:1] == ["1"]   # an address bound to the pod was found
    return True


# ---- C18 ---------------------------------------------------------------------
def sig_C18(ins, outs):
    if outs[:1] == ["3"]:
        try:
            n = int(outs[1])
            ents = [outs[2 + 5 * i: 7 + 5 * i] for i in range(n)]
            if any((e[2] == "0" or e[3] == "0") and not (e[0] == "4" and e[1] == "1") for e in ents) and \
               all(not ((e[2] == "0" or e[3] == "0") and e[0] == "4" and e[1] == "1") for e in ents):
                return "C18:patched:non-eth0-entry-without-vswitch-or-security-group"
        except Exception:
            pass
        return "C18:patched"
    return "C18:verdict" + (outs[0] if outs else "?")


def nt_C18(ins, outs):
    return outs[:1] in (["3"], ["1"])


def dist_C18(cases):
    d = {"allowed_unchanged": 0, "denied": 0, "errored": 0, "patched": 0, "panic_or_bad": 0,
         "has_pod_networks": 0, "has_request": 0, "conflicting": 0, "with_affinity": 0}
    for _, ins, outs in cases:
        k = {"0": "allowed_unchanged", "1": "denied", "2": "errored", "3": "patched"}.get(outs[0] if outs else "", "panic_or_bad")
        d[k] += 1
        hn, hr, hp = ins[11] != "0", ins[12] != "0", ins[13] != "0"
        d["has_pod_networks"] += hn
        d["has_request"] += hr
        d["conflicting"] += (hn + hr + hp) > 1
        if k == "patched":
            n = int(outs[1])
            if outs[2 + 5 * n + 2] != "0":
                d["with_affinity"] += 1
    return d


# ---- pool properties (C01 C06 C07): the input is cfg + length-prefixed records ---------------
def pool_records(ins):
    v = [int(x) for x in ins]
    ns = v[0]
    hdr = 1 + 2 * ns + 8
    n = v[hdr]
    pos = hdr + 1
    recs = []
    for _ in range(n):
        k = v[pos]
        recs.append(v[pos + 1:pos + 1 + k])
        pos += 1 + k
    return v[:hdr], recs


def _why(extra):
    import re
    m = re.search(r"why=(-?\d+)", extra or "")
    if not m:
        return 0, -1
    w = int(m.group(1))
    return w // 100000, w % 100000


def sig_C01(ins, outs, extra=""):
    code, idx = _why(extra)
    try:
        cfg, recs = pool_records(ins)
        if code in (145, 165) and 0 <= idx < len(recs):
            rid = recs[idx][1]
            pod = next((r[2] for r in recs if r[0] == 1 and r[1] == rid), 0)
            att = next((r for r in recs[:idx] if r[0] == 20 and r[2] == rid and r[7] == 1), None)
            if att:
                slot = att[1]
                pos = recs.index(att)
                # does the slot hold an interface at the time of the attempt? (created earlier and not deleted since)
                had_eni = False
                for r in recs[:pos]:
                    if r[0] == 12 and r[1] == slot and r[2] in (0, 1) and len(r) > 6 and r[6] != 0:
                        had_eni = True
                    if r[0] == 12 and r[1] == slot and r[2] == 6 and len(r) > 4 and r[4] == 1:
                        had_eni = False
                if not had_eni and att[5] != 0:
                    return "C01:repeat-add:second-address:pinned-request-served-by-interface-less-slot"
            return "C01:repeat-add:second-address"
        if code in (141, 161):
            return "C01:exclusive:address-held-by-two-pods"
        if code in (142, 162, 143, 163, 144, 164):
            return "C01:handout:address-not-live:%d" % (code % 10)
    except Exception:
        pass
    return "C01:?"


def sig_C06(ins, outs, extra=""):
    code, idx = _why(extra)
    return "C06:clause%d" % code


def sig_C07(ins, outs, extra=""):
    code, idx = _why(extra)
    return "C07:clause%d" % code


def _pool_nt(ins, want):
    try:
        cfg, recs = pool_records(ins)
    except Exception:
        return False
    return want(recs)


def nt_C01(ins, outs):
    def want(recs):
        pods = {r[1] for r in recs if r[0] == 10 and r[2] == 1}
        inflight = False
        open_calls = 0
        for r in recs:
            if r[0] == 11: open_calls += 1
            if r[0] == 12 and r[2] != 0: open_calls -= 1
            if r[0] < 10 and open_calls > 0: inflight = True
        return len(pods) >= 2 and inflight
    return _pool_nt(ins, want)


def nt_C06(ins, outs):
    return _pool_nt(ins, lambda recs: any(r[0] == 11 and r[2] >= 4 for r in recs))


def nt_C07(ins, outs):
    if ins and int(ins[0]) == 99:
        return int(ins[1]) >= 2 and len(outs) > 0 and int(outs[0]) == 1
    return _pool_nt(ins, lambda recs: any(r[0] == 12 and r[2] != 0 and r[3] == 0 for r in recs))


def _dist_pool(cases):
    names = {1: "add", 2: "cancel", 3: "del", 4: "complete_call", 5: "advance", 6: "balancer", 7: "remote_remove", 8: "metasync"}
    d = {"histories": len(cases), "records": 0, "quiescent_snapshots": 0, "cloud_calls": 0, "cloud_call_failures": 0,
         "replies_ok": 0, "replies_err": 0, "dual_stack": 0, "ipv6_only": 0, "stimuli": {v: 0 for v in names.values()}}
    for _, ins, outs in cases:
        try:
            cfg, recs = pool_records(ins)
        except Exception:
            continue
        ns = cfg[0]
        on4, on6 = cfg[1 + 2 * ns], cfg[2 + 2 * ns]
        d["dual_stack"] += 1 if (on4 and on6) else 0
        d["ipv6_only"] += 1 if (on6 and not on4) else 0
        d["records"] += len(recs)
        for r in recs:
            if r[0] in names: d["stimuli"][names[r[0]]] += 1
            elif r[0] == 99: d["quiescent_snapshots"] += 1
            elif r[0] == 11: d["cloud_calls"] += 1
            elif r[0] == 12 and r[2] != 0 and r[3] == 0: d["cloud_call_failures"] += 1
            elif r[0] == 10: d["replies_ok" if r[2] == 1 else "replies_err"] += 1
    return d


dist_C01 = dist_C06 = dist_C07 = _dist_pool


# ---- service properties (C04 C05 C09) ------------------------------------------------------------
def _svc_why(extra):
    import re
    m = re.search(r"why=(-?\d+)", extra or "")
    return int(m.group(1)) // 100000 if m else 0


def sig_C04(ins, outs, extra=""):
    return "C04:clause%d" % _svc_why(extra)


def sig_C05(ins, outs, extra=""):
    code = _svc_why(extra)
    try:
        cfg, recs = pool_records(ins)
        if code == 503:
            # two records on disk claiming one address: a DEL released it and stalled before deleting its record
            claims = {}
            dels = {}        # rid -> pod of the DEL requests in flight
            released = set() # pods whose recorded allocation was released by a DEL that has not removed the record (yet)
            for r in recs:
                if r[0] == 32:
                    dels[r[1]] = r[2]
                elif r[0] == 41:
                    dels.pop(r[1], None)
                elif r[0] == 22 and r[2] in dels.values() and r[2] in claims:
                    released.add(r[2])
                elif r[0] == 42 and r[1] == 2:
                    claims[r[2]] = (r[4], r[5], r[6])
                    released.discard(r[2])
                elif r[0] == 42 and r[1] == 4:
                    claims.pop(r[2], None)
                    released.discard(r[2])
                elif r[0] == 50:
                    # every address claimed twice has a claimant whose DEL released it and left the record
                    by_addr = {}
                    for pod, c in claims.items():
                        for fam, a in ((4, c[1]), (6, c[2])):
                            if a:
                                by_addr.setdefault((c[0], fam, a), []).append(pod)
                    dup = [pods for pods in by_addr.values() if len(pods) > 1]
                    if dup and all(any(q in released for q in pods) for pods in dup):
                        return "C05:restart:acknowledged-allocation-lost-to-stale-record-of-unfinished-DEL"
    except Exception:
        pass
    return "C05:clause%d" % code


def sig_C09(ins, outs, extra=""):
    code = _svc_why(extra)
    return "C09:clause%d" % code


def _ipam_kind(ins):
    return int(ins[0]) if ins else 0


def _ipam_hist_cfg(ins):
    # 4 on4 on6 trunk rdma per4 per6 fs ft fr min max
    return dict(zip(("on4", "on6", "trunk", "rdma", "per4", "per6", "fs", "ft", "fr", "min", "max"), [int(x) for x in ins[1:12]]))


def sig_C02(ins, outs, extra=""):
    code, idx = _why(extra)
    return "C02:kind%d:clause%d" % (_ipam_kind(ins), code)


def sig_C03(ins, outs, extra=""):
    code, idx = _why(extra)
    if _ipam_kind(ins) == 9:
        return "C03:daemon:clause%d" % _svc_why(extra)
    return "C03:kind%d:clause%d" % (_ipam_kind(ins), code)


def _ipam_passes(outs):
    """parse the per-round blocks of a history's output: list of dicts(err, confl, calls=[[kind, eni, n, ok, ...]])"""
    o = [int(x) for x in outs]
    i = 0
    res = []
    def cloud(i):
        n = o[i]; i += 1
        for _ in range(n):
            i += 2
            k = o[i]; i += 1 + k
            k = o[i]; i += 1 + k
        return i
    try:
        while i < len(o) and o[i] == 77:
            d = {"err": o[i + 1], "confl": o[i + 2], "restarted": o[i + 3], "calls": []}
            i += 4
            np_ = o[i]; i += 1 + 5 * np_
            nrt = o[i]; i += 1
            if nrt > 0:
                i += 2 * nrt
            i = cloud(i)
            nc = o[i]; i += 1
            for _ in range(nc):
                m = o[i]; d["calls"].append(o[i + 1:i + 1 + m]); i += 1 + m
            ne = o[i]; i += 1
            for _ in range(ne):
                i += 4
                for _f in range(2):
                    k = o[i]; i += 1 + 5 * k
            i = cloud(i)
            res.append(d)
    except IndexError:
        pass
    return res


def sig_C08(ins, outs, extra=""):
    code, idx = _why(extra)
    if _ipam_kind(ins) == 4 and code in (803, 804):
        c = _ipam_hist_cfg(ins)
        ps = _ipam_passes(outs)
        at = ps[idx] if 0 <= idx < len(ps) else (ps[-1] if ps else {"calls": []})
        kinds = sorted({call[0] for call in at["calls"]})
        # the last rounds only assign addresses (min refill) and unassign them again (max trim)
        churn = bool(kinds) and set(kinds) <= {3, 4, 5, 6}
        if churn and c.get("rdma") and c.get("fr", 0) > 0:
            return "C08:fixed-point:erdma-node:idle-address-of-the-RDMA-interface-counts-for-the-max-band-but-not-for-the-min-refill"
        # the same churn in its heavier form: when the interface that would take the refill is full (it still holds the address
        # marked for deletion in the round before) the refill creates a whole interface, which the trim then gives up again:
        # create + attach in one round, detach + delete in the next, forever (min within one of max)
        if kinds and set(kinds) <= {1, 2, 3, 4, 5, 6, 7, 8} and c.get("rdma") and c.get("fr", 0) > 0 and c.get("max", 0) <= c.get("min", 0) + 1 and c.get("min", 0) >= 1:
            return "C08:fixed-point:erdma-node:idle-address-of-the-RDMA-interface-counts-for-the-max-band-but-not-for-the-min-refill"
        if churn and c.get("on4") and c.get("on6") and set(kinds) <= {4, 6}:
            return "C08:fixed-point:dual-stack:idle-primary-IPv4-addresses-count-for-the-max-band-and-trim-the-IPv6-refill"
        if churn:
            return "C08:fixed-point:idle-addresses-spread-over-interfaces:refill-subtracts-them-interface-by-interface-trim-counts-them-all"
    if _ipam_kind(ins) == 4 and code == 806:
        # an ERDMA node whose tail keeps assigning and unassigning on the RDMA interface (the known churn): addIP serves one
        # interface per round, equal address counts are ordered by Go's map order, so the churning interface can take the
        # round from the interface an ordinary pod waits for, several rounds in a row
        c = _ipam_hist_cfg(ins)
        ps = _ipam_passes(outs)
        at = ps[idx] if 0 <= idx < len(ps) else {"calls": []}
        kinds = sorted({call[0] for call in at["calls"]})
        if c.get("rdma") and c.get("fr", 0) > 0 and kinds and set(kinds) <= {3, 4, 5, 6}:
            return "C08:fixed-point:erdma-node:idle-address-of-the-RDMA-interface-counts-for-the-max-band-but-not-for-the-min-refill"
    if _ipam_kind(ins) == 5 and code == 809:
        # the pool loop on a node without pods keeps calling the cloud although min <= max and nothing fails
        # (the model reproduces every round: c08_pool_churn_refuted is this behaviour as a theorem)
        dual = len(ins) > 1 and int(ins[1]) != 0
        if dual:
            return "C08:fixed-point:dual-stack:idle-primary-IPv4-addresses-count-for-the-max-band-and-trim-the-IPv6-refill"
        return "C08:fixed-point:idle-addresses-spread-over-interfaces:refill-subtracts-them-interface-by-interface-trim-counts-them-all"
    return "C08:kind%d:clause%d" % (_ipam_kind(ins), code)


def _ipam_nt(ins, outs):
    ins = [int(x) for x in ins]
    outs = [int(x) for x in outs]
    k = _ipam_kind(ins)
    if k == 1:
        return any(outs[j + 3] > 0 or outs[j + 4] > 0 for j in range(0, len(outs) - 5, 6))
    if k == 2:
        return bool(outs) and outs[0] > 0
    if k == 3:
        i = ins.index(-555) if -555 in ins else len(ins)
        return ins[:i] != [] and outs != [] and True
    if k == 5:
        return 55 in outs
    return 77 in outs


def nt_C02(ins, outs):
    return _ipam_nt(ins, outs)


def nt_C03(ins, outs):
    if ins and int(ins[0]) == 9:
        return len(outs) > 10
    if ins and int(ins[0]) == 8:
        return 3 in [int(x) for x in ins[2:]]   # at least one flush
    return _ipam_nt(ins, outs)


def nt_C08(ins, outs):
    return _ipam_nt(ins, outs)


def _dist_ipam(cases):
    names = {1: "plan", 2: "trim", 3: "bind_pass", 4: "reconcile_history", 5: "pool_loop_without_pods"}
    d = {"cases": len(cases), "kinds": {v: 0 for v in names.values()}, "reconcile_rounds": 0, "cloud_calls": 0, "failed_cloud_calls": 0,
         "rounds_with_error": 0, "update_conflicts": 0, "history_events": {}}
    ev = {1: "add_pod", 2: "delete_pod", 3: "runtime_report", 4: "reconcile", 5: "cloud_drift", 6: "controller_restart", 7: "advance_time", 8: "update_conflict", 9: "runtime_readable_toggle"}
    for _, ins, outs in cases:
        ins = [int(x) for x in ins]
        outs = [int(x) for x in outs]
        k = _ipam_kind(ins)
        d["kinds"][names.get(k, "plan")] = d["kinds"].get(names.get(k, "plan"), 0) + 1
        if k == 4:
            try:
                n = ins[12]; i = 13
                for _ in range(n):
                    m = ins[i]; r = ins[i + 1:i + 1 + m]; i += 1 + m
                    if r:
                        d["history_events"][ev.get(r[0], "?")] = d["history_events"].get(ev.get(r[0], "?"), 0) + 1
                        if r[0] == 4 and len(r) > 1 and r[1] > 0:
                            d["history_events"]["reconcile_with_fault"] = d["history_events"].get("reconcile_with_fault", 0) + 1
            except Exception:
                pass
            d["reconcile_rounds"] += sum(1 for x in outs if x == 77)
        if k == 5:
            d["reconcile_rounds"] += sum(1 for x in outs if x == 55)
    return d


def dist_C02(cases):
    return _dist_ipam(cases)


def dist_C03(cases):
    ipam = [c for c in cases if not (c[1] and int(c[1][0]) in (8, 9))]
    svc = [(cid, ins[1:], outs) for cid, ins, outs in cases if ins and int(ins[0]) == 9]
    rt = [ins for cid, ins, outs in cases if ins and int(ins[0]) == 8]
    d = _dist_ipam(ipam)
    d["daemon_histories"] = _dist_svc(svc) if svc else {}
    names = {1: "del_processed", 2: "add_answered", 3: "flush", 4: "cleanup", 5: "ipam_binds", 6: "ipam_forgets", 7: "object_deleting", 8: "object_removed"}
    ops = {v: 0 for v in names.values()}
    ops["flush_with_failing_api_call"] = 0
    for ins in rt:
        v = [int(x) for x in ins[2:]]
        i = 0
        while i < len(v):
            k = v[i]
            ops[names.get(k, "del_processed")] = ops.get(names.get(k, "del_processed"), 0) + 1
            if k in (3, 4):
                if k == 3 and (v[i + 1] == 0 or v[i + 2] == 0):
                    ops["flush_with_failing_api_call"] += 1
                i += 3
            elif k in (7, 8):
                i += 1
            else:
                i += 2
    d["teardown_report_histories"] = {"cases": len(rt), "operations": ops}
    return d


def dist_C08(cases):
    return _dist_ipam(cases)


PE_PHASES = {0: "Initial", 1: "Bind", 2: "Detaching", 3: "Unbind", 4: "Binding", 5: "Deleting"}


def _pe_blocks(outs):
    """parse the per-step blocks of a PodENI history: list of dict(step, name, err, pods, recs{name: (phase, uid, del, allocs)}, calls)"""
    o = [int(x) for x in outs]
    i = 0
    res = []
    try:
        while i < len(o) and o[i] == 88:
            d = {"step": o[i + 1], "name": o[i + 2], "err": o[i + 3], "now": o[i + 4], "recs": {}, "calls": []}
            i += 5
            np_ = o[i]; i += 1
            d["pods"] = [tuple(o[i + 5 * j:i + 5 * j + 5]) for j in range(np_)]; i += 5 * np_
            nr = o[i]; i += 1
            for _ in range(nr):
                nm, ph, uid, node, dl, fin = o[i:i + 6]; i += 6
                na = o[i]; i += 1
                al = tuple(o[i:i + 5 * na]); i += 5 * na
                seen = o[i]; i += 1
                d["recs"][nm] = (ph, uid, dl, al, seen)
            nc = o[i]; i += 1
            for _ in range(nc):
                m = o[i]; d["calls"].append(o[i + 1:i + 1 + m]); i += 1 + m
            for _x in range(2):
                n = o[i]; i += 1 + 5 * n
            res.append(d)
    except IndexError:
        pass
    return res


def sig_C10(ins, outs, extra=""):
    code, idx = _why(extra)
    if code in (1001, 1006):
        bs = _pe_blocks(outs)
        if 0 < idx < len(bs):
            prev, cur = bs[idx - 1]["recs"], bs[idx]["recs"]
            bad = []
            for nm, c in cur.items():
                if nm in prev and prev[nm][3] == c[3] and prev[nm][0] != c[0]:
                    bad.append((prev[nm][0], c[0]))
                if nm not in prev and c[0] != 0:
                    bad.append((-1, c[0]))
            legal = {(0, 1), (1, 2), (2, 3), (3, 4), (4, 1)}
            bad = [t for t in bad if t not in legal and t[1] != 5]
            if bad and all(t in ((0, 2), (4, 2)) for t in bad):
                return "C10:phase:Initial-or-Binding->Detaching"
            if bad:
                a, b = bad[0]
                return "C10:phase:%s->%s" % (PE_PHASES.get(a, "new"), PE_PHASES.get(b, "?"))
    return "C10:clause%d" % code


def sig_C11(ins, outs, extra=""):
    code, idx = _why(extra)
    return "C11:clause%d" % code


def _pe_nt(ins, outs):
    return any(int(x) == 88 for x in outs[:1]) and len(outs) > 40


def nt_C10(ins, outs):
    return _pe_nt(ins, outs)


def nt_C11(ins, outs):
    return _pe_nt(ins, outs)


def _dist_pe(cases):
    ev = {1: "add_pod", 2: "sandbox_exits", 3: "delete_pod", 4: "pod_controller_reconcile", 5: "podeni_controller_reconcile", 6: "record_collector_pass",
          7: "interface_collector_pass", 8: "advance_time", 9: "foreign_interface", 10: "api_fault", 11: "hold_next_attach", 12: "release_attach"}
    d = {"histories": len(cases), "steps": 0, "events": {v: 0 for v in ev.values()}, "steps_with_error": 0, "cloud_calls": 0,
         "phase_transitions": {}, "pod_kinds": {"elastic": 0, "fixed_ttl": 0, "fixed_never": 0, "two_interfaces": 0, "no_podeni": 0}}
    kn = {0: "elastic", 1: "fixed_ttl", 2: "fixed_never", 3: "two_interfaces", 4: "two_interfaces", 5: "no_podeni"}
    for _, ins, outs in cases:
        try:
            ii = [int(x) for x in ins]
            n = ii[3]; i = 4
            for _ in range(n):
                m = ii[i]; r = ii[i + 1:i + 1 + m]; i += 1 + m
                if r:
                    d["events"][ev.get(r[0], "add_pod")] += 1
                    if r[0] == 1:
                        d["pod_kinds"][kn.get(r[4], "elastic")] += 1
        except Exception:
            pass
        bs = _pe_blocks(outs)
        d["steps"] += len(bs)
        prev = {}
        for b in bs:
            d["steps_with_error"] += 1 if b["err"] else 0
            d["cloud_calls"] += len(b["calls"])
            for nm, c in b["recs"].items():
                if nm in prev and prev[nm][0] != c[0]:
                    k = "%s->%s" % (PE_PHASES.get(prev[nm][0]), PE_PHASES.get(c[0]))
                    d["phase_transitions"][k] = d["phase_transitions"].get(k, 0) + 1
            prev = b["recs"]
    return d


def dist_C10(cases):
    return _dist_pe(cases)


def dist_C11(cases):
    return _dist_pe(cases)


def sig_C13(ins, outs, extra=""):
    code, idx = _why(extra)
    k = int(ins[0]) if ins else 0
    if k == 1:
        return "C13:generator:dp%s:clause%d" % (ins[1] if len(ins) > 1 else "?", code)
    return "C13:sequence:clause%d" % code


def nt_C13(ins, outs):
    return len(outs) > 4


def dist_C13(cases):
    names = {0: "policy_route", 1: "ipvlan", 2: "exclusive_eni", 3: "vlan"}
    ops = {1: "setup", 2: "teardown", 3: "sandbox_lost_without_del", 4: "interface_lost", 5: "interface_back"}
    d = {"cases": len(cases), "generator_cases": {v: 0 for v in names.values()}, "sequences": 0, "operations": {v: 0 for v in ops.values()},
         "families": {"v4": 0, "v6": 0, "dual": 0}, "teardown_index": {"real": 0, "zero": 0, "stale": 0}, "operations_with_error": 0}
    for _, ins, outs in cases:
        ii = [int(x) for x in ins]
        if ii and ii[0] == 1:
            d["generator_cases"][names.get(ii[1], "vlan")] += 1
            d["families"]["dual" if ii[2] and ii[3] else ("v4" if ii[2] else "v6")] += 1
        elif ii and ii[0] == 2:
            d["sequences"] += 1
            n = ii[1]
            for j in range(n):
                op = ii[2 + 6 * j:8 + 6 * j]
                if len(op) == 6:
                    d["operations"][ops.get(op[0], "setup")] += 1
                    if op[0] == 2:
                        d["teardown_index"][("real", "zero", "stale")[op[5] if 0 <= op[5] <= 2 else 0]] += 1
            oo = [int(x) for x in outs]
            d["operations_with_error"] += sum(1 for i in range(len(oo) - 6) if oo[i] == 99 and oo[i + 6] == 1 and oo[i + 1] in (1, 2, 3, 4, 5))
    return d


def nt_C04(ins, outs):
    return _pool_nt(ins, lambda recs: any(r[0] == 41 and r[3] == 1 for r in recs) or len({(r[2], r[3]) for r in recs if r[0] in (31, 32, 33)}) > len({r[2] for r in recs if r[0] in (31, 32, 33)}))


def nt_C05(ins, outs):
    def want(recs):
        acked = False
        for r in recs:
            if r[0] == 41 and r[2] == 1 and r[3] == 0: acked = True
            if r[0] == 50 and acked: return True
        return False
    return _pool_nt(ins, want)


def nt_C09(ins, outs):
    def want(recs):
        gone = set(); stored = set()
        for r in recs:
            if r[0] == 35: gone.add(r[1])
            if r[0] == 42 and r[1] == 2: stored.add(r[2])
            if r[0] == 42 and r[1] == 4: stored.discard(r[2])
            if r[0] == 34 and gone & stored: return True
        return False
    return _pool_nt(ins, want)


def _dist_svc(cases):
    names = {31: "add", 32: "del", 33: "get", 34: "gc", 35: "pod_gone", 36: "sandbox_exited", 37: "api_failure_toggle", 38: "crash", 39: "park_store_op",
             40: "release_failure_toggle", 2: "cancel", 4: "complete_call", 5: "advance"}
    d = {"histories": len(cases), "records": 0, "quiescent_snapshots": 0, "replies_ok": 0, "replies_processing": 0, "replies_error": 0,
         "store_puts": 0, "store_deletes": 0, "restarts": 0, "stimuli": {v: 0 for v in names.values()}}
    for _, ins, outs in cases:
        try:
            cfg, recs = pool_records(ins)
        except Exception:
            continue
        d["records"] += len(recs)
        for r in recs:
            if r[0] in names: d["stimuli"][names[r[0]]] += 1
            elif r[0] == 99: d["quiescent_snapshots"] += 1
            elif r[0] == 41: d[["replies_ok", "replies_processing", "replies_error"][min(r[3], 2)]] += 1
            elif r[0] == 42 and r[1] == 2: d["store_puts"] += 1
            elif r[0] == 42 and r[1] == 4: d["store_deletes"] += 1
            elif r[0] == 50: d["restarts"] += 1
    return d


dist_C04 = dist_C05 = dist_C09 = _dist_svc
